"""C19 - bisection and implied volatility invert monotone functions to precision.  Engine: grid (programs).

Families
  bisect_grid     pfhedge._utils.bisect.bisect on ALL combinations of function program x direction x
                  bracket (python floats / 0-dim tensors / per-element tensors) x per-element target
                  fractions (all rotations) x precision x shape x dtype; oracle = the exact inverse in
                  mpmath: |out - root| <= precision + eta, eta = rounding of fn / slope (derived below).
  bisect_abort    unattainable precisions (0, 1e-30) and exact iteration counts on dyadic brackets
                  (max_iter = k-1, k, k+1 for a search that needs exactly k halvings), under a watchdog:
                  RuntimeError exactly when the model says the iteration budget is exceeded, never a hang.
  bisect_rank     0-dim / lower-rank float64 targets under vector- and matrix-valued functions, precisions 1e-10/1e-12,
                  default dtype float32 and float64; result shape and dtype.
  iv_scalar_price one 0-dim float64 price against vector log-moneyness / maturity through every entry point.
  bisect_autograd monotone functions whose VALUE is computed by autograd (torch.autograd.grad of a polynomial,
                  autogreek.delta of bs_european_price, BSLookbackOption().theta), grad enabled / ambient no_grad.
  bisect_sequence 2-3 consecutive searches (different functions, directions, targets) that share the caller's
                  full-shape bound tensors: every call within precision of its own root; bounds bitwise unchanged.
  bisect_subulp   precision positive but finer than the float spacing of the bound dtype at the root (float32
                  1e-9, 1e-6 around 1000; float64 1e-18): RuntimeError, or a point really within that precision.
  iv_cases        module.implied_volatility(price = module.price(volatility = v)) for the 4 Black-Scholes
                  modules on the (log-moneyness, maturity, running max, strike, call/put) grid x 12
                  volatilities of the bracket, one call per grid case (the 12 volatilities batched),
                  restricted to the cases whose closed-form price (models/bs_closed.py) is strictly
                  monotone in volatility on the whole bracket [0.001, 1] (decided by the model).
                  Oracle in price space (no division by a vanishing vega).
  iv_bound        modules attached to a derivative: price() / implied_volatility() with the arguments read from the
                  derivative's buffers (scripted market, all paths).
  iv_bracket      find_implied_volatility with lower / upper keywords (0.001..4, 0..1, 0..4), volatilities up to 3.9,
                  strict |result - sigma| <= precision oracle.
  iv_subulp       precision below the float spacing of the price dtype through every implied-volatility entry point
                  (find_implied_volatility on module / functional prices, the 4 modules; float32 and float64).
  bisect_own_bracket  per-element brackets given as tensors (shape of the target, one per row, one per column) for
                  functions monotone on each element's OWN bracket only (x^2, |x|, cos, cosh, x^3 - 3x: turning points
                  between the brackets, mixed directions in one call), exact inverse on the stretch.
  iv_wide_bracket find_implied_volatility with lower / upper / precision keywords on brackets [1e-5, 8], [1e-9, 8],
                  [1e-7, 64] (float64), [1e-5, 8], [1e-6, 64] (float32), volatilities next to both ends; strict oracle
                  precision + spacing + price rounding / vega.
  iv_history      histories of implied-volatility searches with different brackets in one process.
  iv_batch        the same cases of one module and one direction in ONE call (a tensor over moneyness /
                  maturity / strike), as implied volatilities are computed in practice.
"""
from __future__ import annotations

import itertools
import math
import signal

import mpmath as mp
import torch

from mc.core.runner import HarnessError
from mc.models import bs_closed as B

mp.mp.dps = 30
FAMILIES = {}

# torch imports sympy lazily (e.g. inside torch.broadcast_shapes); do it now, outside any watchdog
import sympy  # noqa: E402,F401
torch.broadcast_shapes((1,), (2, 1))


def family(fn):
    FAMILIES[fn.__name__] = fn
    return fn


DT = {"float64": torch.float64, "float32": torch.float32}


class _Hang(Exception):
    pass


_HUNG = []


class watchdog:
    """Turns a search that does not stop into a _Hang exception.  The budget is CPU time of this
    process (ITIMER_VIRTUAL), so a loaded machine cannot fake a hang, and it is derived from the number
    of iterations the model allows: 2 s (room for one-off lazy imports inside torch - an interrupted
    import would leave a half-initialised module behind) + 4 ms per iteration and per unit of work (a
    healthy iteration costs ~40 us on these tensor sizes).  After the first hang seen in this process the
    remaining calls get at most 0.15 s, so that an implementation that never stops cannot make the check
    run much longer than usual."""

    def __init__(self, iterations, work=1.0):
        budget = 2.0 + 0.004 * iterations * work
        self.seconds = min(budget, 0.15) if _HUNG else budget

    def _handler(self, signum, frame):
        raise _Hang()

    def __enter__(self):
        self.old = signal.signal(signal.SIGVTALRM, self._handler)
        signal.setitimer(signal.ITIMER_VIRTUAL, self.seconds)

    def __exit__(self, exc_type, *a):
        signal.setitimer(signal.ITIMER_VIRTUAL, 0)
        signal.signal(signal.SIGVTALRM, self.old)
        if exc_type is _Hang:
            _HUNG.append(1)
        return False


# ------------------------------------------------------------------------------------------------
# function programs: name -> (torch g, mpmath g, mpmath g', mpmath inverse of g, needs positive domain)
# every program is  f(x) = a * g(x) + b  with per-element coefficient tensors a (one sign) and b
# ------------------------------------------------------------------------------------------------

def _cubic_inv(y):
    """The real root of x^3 + x = y (strictly increasing, odd): Cardano, x = u - 1/(3u) with
    u = cbrt(|y|/2 + sqrt(y^2/4 + 1/27))."""
    y = mp.mpf(y)
    if y == 0:
        return mp.mpf(0)
    u = mp.cbrt(abs(y) / 2 + mp.sqrt(y * y / 4 + mp.mpf(1) / 27))
    return mp.sign(y) * (u - 1 / (3 * u))


PROGRAMS = {
    "affine": (lambda x: x, lambda x: x, lambda x: mp.mpf(1), lambda y: y, False),
    "exp": (torch.exp, mp.exp, mp.exp, mp.log, False),
    "log": (torch.log, mp.log, lambda x: 1 / x, mp.exp, True),
    "logistic": (torch.sigmoid, lambda x: 1 / (1 + mp.exp(-x)),
                 lambda x: mp.exp(-x) / (1 + mp.exp(-x)) ** 2, lambda y: mp.log(y / (1 - y)), False),
    "cubic": (lambda x: x ** 3 + x, lambda x: x ** 3 + x, lambda x: 3 * x * x + 1, _cubic_inv, False),
    "tanh": (torch.tanh, mp.tanh, lambda x: 1 / mp.cosh(x) ** 2, mp.atanh, False),
}
# per-element slope magnitudes (dyadic) and offsets; element i of a tensor uses entry i (cyclically)
SLOPES = [0.5, 1.0, 3.0, 1.0]
OFFSETS = [0.25, -0.5, 0.0, 1.0]
BRACKETS = [[0.0, 1.0], [-2.0, 3.0], [0.01, 10.0]]
FRACTIONS = [0.01, 0.25, 0.5, 0.99]


def _spacing_below(x, dtype):
    """Distance from x to the next float towards zero in ``dtype`` (the largest spacing inside [0, x])."""
    t = torch.tensor(x, dtype=dtype)
    return float(t - torch.nextafter(t, torch.zeros_like(t))) if x != 0 else 0.0


def _numel(shape):
    n = 1
    for d in shape:
        n *= d
    return n


def _elements(block):
    """Per-element description of one call: list of dicts (a, b, lo, hi, frac)."""
    n = _numel(block["shape"])
    rot = block["rotation"]
    out = []
    sign = -1.0 if block["decreasing"] else 1.0
    for i in range(n):
        if block["coeff"] == "uniform":
            a, b = sign * block["slope"], 0.25
        else:
            a, b = sign * SLOPES[(i + rot) % len(SLOPES)], OFFSETS[(i + rot) % len(OFFSETS)]
            if block.get("mixed_direction") and i % 2:
                a = -a      # elements of opposite directions in one call (supported since the per-element direction fix)
        if block["bracket_kind"] == "tensor":
            lo, hi = block["brackets"][(i + block.get("bracket_rotation", rot)) % len(block["brackets"])]
        else:
            lo, hi = block["brackets"][0]
        fr = block["fractions"]
        out.append({"a": a, "b": b, "lo": lo, "hi": hi, "frac": fr[(i + rot) % len(fr)]})
    return out


def _build_call(block):
    """Tensors and the python callable handed to bisect, plus the model's exact data per element."""
    g_t, g_m, dg_m, ginv_m, _ = PROGRAMS[block["fn"]]
    dtype = DT[block["dtype"]]
    shape = tuple(block["shape"])
    els = _elements(block)
    a = torch.tensor([e["a"] for e in els], dtype=dtype).reshape(shape)
    b = torch.tensor([e["b"] for e in els], dtype=dtype).reshape(shape)
    kind = block["bracket_kind"]
    if kind == "float":
        lower, upper = els[0]["lo"], els[0]["hi"]
        bdtype = torch.get_default_dtype()      # bisect() turns python floats into default-dtype tensors
    elif kind == "tensor0":
        lower, upper = torch.tensor(els[0]["lo"], dtype=dtype), torch.tensor(els[0]["hi"], dtype=dtype)
        bdtype = dtype
    else:
        lower = torch.tensor([e["lo"] for e in els], dtype=dtype).reshape(shape)
        upper = torch.tensor([e["hi"] for e in els], dtype=dtype).reshape(shape)
        bdtype = dtype
    # targets at the stated fraction of the range, computed by the model and rounded to the dtype:
    # the rounded float is then the truth the root is defined by
    tg = []
    for e in els:
        lo = mp.mpf(float(torch.tensor(e["lo"], dtype=bdtype)))
        hi = mp.mpf(float(torch.tensor(e["hi"], dtype=bdtype)))
        flo, fhi = e["a"] * g_m(lo) + e["b"], e["a"] * g_m(hi) + e["b"]
        tg.append(float(flo + mp.mpf(e["frac"]) * (fhi - flo)))
    target = torch.tensor(tg, dtype=dtype).reshape(shape)
    calls = {"n": 0}

    def fn(x):
        calls["n"] += 1
        return a * g_t(x) + b

    model = []
    for e, y in zip(els, target.reshape(-1).tolist()):
        lo = mp.mpf(float(torch.tensor(e["lo"], dtype=bdtype)))
        hi = mp.mpf(float(torch.tensor(e["hi"], dtype=bdtype)))
        gy = (mp.mpf(y) - e["b"]) / e["a"]
        root = ginv_m(gy)
        root = min(max(root, lo), hi)
        slope = abs(e["a"] * dg_m(root))
        model.append({"root": root, "slope": slope, "lo": lo, "hi": hi, "y": y,
                      "size": abs(e["a"] * g_m(root)) + abs(e["b"]) + abs(y)})
    return fn, target, lower, upper, model, bdtype, calls


def _eta(m, bdtype, precision):
    """How far outside the final bracket the exact root can lie.  bisect() keeps
    fl(f)(lower) < y <= fl(f)(upper); fl(f) = a*g(x)+b evaluated in the bracket dtype differs from f
    by at most 8 eps (|a g| + |b| + |y|) (g within 2 ulp, one multiplication, one addition, the
    comparison with the rounded target), which moves the crossing point by that amount divided by
    the slope.  The slope is taken at its minimum over [root - 2 precision, root + 2 precision]
    for the convex/concave programs used here = at one of the two ends."""
    eps = torch.finfo(bdtype).eps
    return 8 * eps * m["size"] / m["slope_min"] + 4 * eps * float(max(abs(m["lo"]), abs(m["hi"])))


def _min_slope(block, e, m, precision):
    _, _, dg_m, _, _ = PROGRAMS[block["fn"]]
    xs = [m["root"], max(m["lo"], m["root"] - 2 * precision), min(m["hi"], m["root"] + 2 * precision)]
    return min(abs(e["a"] * dg_m(x)) for x in xs)


@family
def bisect_grid(ctx, block):
    from pfhedge._utils.bisect import bisect
    fn, target, lower, upper, model, bdtype, calls = _build_call(block)
    els = _elements(block)
    precision = block["precision"]
    site = "bisect"
    n = len(els)
    # documented contract: the search stops with an error when the iteration budget is exceeded.  In exact
    # arithmetic n* = max_i ceil(log2(width_i / precision)) halvings suffice; floating-point midpoints can cost
    # one more.  Giving bisect the budget n* + 2 keeps a non-converging implementation from spinning through the
    # default 100000 iterations on each of the ~5000 calls, and turns it into a violation instead.
    nstar = max(max(0, math.ceil(math.log2(float(m["hi"] - m["lo"]) / precision))) for m in model)
    max_iter = block.get("max_iter", nstar + 2)
    try:
        with watchdog(max_iter):
            out = bisect(fn, target, lower, upper, precision=precision, max_iter=max_iter)
    except _Hang:
        ctx.tick(n)
        ctx.violation(site, "hang", f"bisect did not stop within the CPU budget of {max_iter} iterations on {block}", block=block)
        return
    except RuntimeError as e:
        ctx.tick(n)
        ctx.violation(site, "raises_on_attainable_precision",
                      f"RuntimeError (max_iter={max_iter}) on a search the model completes in {nstar} halvings: {e}",
                      observed=str(e), expected="a root", block=block)
        return
    want_shape = tuple(block["shape"])
    if tuple(out.shape) != want_shape:
        ctx.tick(n)
        ctx.violation(site, "shape", f"output shape {tuple(out.shape)} != target shape {want_shape}",
                      observed=list(out.shape), expected=list(want_shape), block=block)
        return
    got = out.detach().to(torch.float64).reshape(-1).tolist()
    nontriv = 0
    for i, (e, m, x) in enumerate(zip(els, model, got)):
        m["slope_min"] = _min_slope(block, e, m, precision)
        tol = precision + float(_eta(m, bdtype, precision))
        err = abs(mp.mpf(x) - m["root"])
        nontriv += 1 if e["frac"] not in (0.5,) or block["decreasing"] else 0
        if x != x or err > tol:
            ctx.violation(site, _classify_bisect(block, e),
                          f"bisect({block['fn']}{' decreasing' if block['decreasing'] else ''}, element {i}: a={e['a']}, b={e['b']}, "
                          f"bracket [{e['lo']}, {e['hi']}] as {block['bracket_kind']}, target {m['y']!r} (fraction {e['frac']}), "
                          f"precision {precision}, shape {list(want_shape)}, {block['dtype']}) = {x!r}; root = {float(m['root'])!r} "
                          f"(|diff| {float(err):.3e} > {tol:.3e})",
                          observed=x, expected=float(m["root"]), block=block)
    ctx.tick(n, nontrivial=nontriv)
    ctx.add("function_evaluations_by_bisect", calls["n"])
    ctx.outcome((block["fn"], block["decreasing"], round(got[0], 6)))
    if len(ctx.samples) < 3 and block["decreasing"] and n > 1 and block["bracket_kind"] == "tensor":
        ctx.sample({"family": "bisect_grid", "block": block, "targets": [m["y"] for m in model], "returned": got,
                    "exact_roots": [float(m["root"]) for m in model]})


def _classify_bisect(block, e):
    return "root_" + ("decreasing" if block["decreasing"] else "increasing") + ("_per_element_bracket" if block["bracket_kind"] == "tensor" else "")


@family
def bisect_sequence(ctx, block):
    """Several consecutive searches that share the caller's bound tensors (full shape, dtype of the
    targets - nothing for bisect to convert or broadcast): different functions, directions and
    targets on the same per-element brackets.  Every call must be within precision of its own root;
    as a by-product the caller's bound tensors must be bitwise unchanged after every call."""
    from pfhedge._utils.bisect import bisect
    steps = block["steps"]
    common = {k: block[k] for k in ("shape", "dtype", "brackets", "precision", "fractions")}
    common.update(bracket_kind="tensor", bracket_rotation=0)
    precision = block["precision"]
    lower = upper = snap = None
    for k, st in enumerate(steps):
        b = dict(common, **st)
        fn, target, lo_k, up_k, model, bdtype, calls = _build_call(b)
        els = _elements(b)
        if lower is None:
            lower, upper = lo_k, up_k
            snap = (lower.clone(), upper.clone())
        nstar = max(max(0, math.ceil(math.log2(float(m["hi"] - m["lo"]) / precision))) for m in model)
        mini = dict(block, steps=steps[:k + 1])
        n = len(els)
        try:
            with watchdog(nstar + 2):
                out = bisect(fn, target, lower, upper, precision=precision, max_iter=nstar + 2)
        except _Hang:
            ctx.tick(n)
            ctx.violation("bisect", "hang", f"call {k + 1} of a sequence on shared bounds did not return", block=mini)
            return
        except (RuntimeError, ValueError) as e:
            ctx.tick(n)
            ctx.violation("bisect", "raises_on_reused_bounds" if k else "raises_on_attainable_precision",
                          f"call {k + 1} of {len(steps)} on the same bound tensors ({st['fn']}, decreasing={st['decreasing']}) "
                          f"raised {type(e).__name__}: {e}; the model completes it in {nstar} halvings",
                          observed=f"{type(e).__name__}: {e}", expected="a root", block=mini)
            return
        if tuple(out.shape) != tuple(block["shape"]):
            ctx.violation("bisect", "shape", f"output shape {tuple(out.shape)}", block=mini)
            return
        got = out.detach().to(torch.float64).reshape(-1).tolist()
        for i, (e, m, x) in enumerate(zip(els, model, got)):
            m["slope_min"] = _min_slope(b, e, m, precision)
            tol = precision + float(_eta(m, bdtype, precision))
            err = abs(mp.mpf(x) - m["root"])
            if x != x or err > tol:
                ctx.violation("bisect", "root_of_first_call" if k == 0 else "root_after_reused_bounds",
                              f"call {k + 1} of {len(steps)} on the same bound tensors: bisect({st['fn']}"
                              f"{' decreasing' if st['decreasing'] else ''}, element {i}, bracket [{e['lo']}, {e['hi']}], "
                              f"target {m['y']!r}, precision {precision}, {block['dtype']}) = {x!r}; root = {float(m['root'])!r}",
                              observed=x, expected=float(m["root"]), block=mini)
        ctx.tick(n, nontrivial=n if k else 0)
        if not (torch.equal(lower, snap[0]) and torch.equal(upper, snap[1])):
            ctx.violation("bisect", "caller_bounds_mutated",
                          f"after call {k + 1} the caller's bound tensors changed: lower {snap[0].reshape(-1).tolist()} -> "
                          f"{lower.reshape(-1).tolist()}, upper {snap[1].reshape(-1).tolist()} -> {upper.reshape(-1).tolist()}",
                          observed=[lower.reshape(-1).tolist(), upper.reshape(-1).tolist()],
                          expected=[snap[0].reshape(-1).tolist(), snap[1].reshape(-1).tolist()], block=mini)
            snap = (lower.clone(), upper.clone())   # reported once per change; the sequence goes on
    ctx.add("bisect_sequences", 1)
    ctx.outcome(("seq", tuple((st["fn"], st["decreasing"]) for st in steps), round(got[0], 6)))


# ------------------------------------------------------------------------------------------------
# functions that are monotone on each element's OWN bracket only (turning points between the brackets)
# ------------------------------------------------------------------------------------------------

def _cubic3_inv(y, lo, hi):
    """The root of x^3 - 3x = y inside [lo, hi] (Viete: x = 2 cos((acos(y/2) - 2 pi k)/3) for |y| <= 2,
    x = sign(y) 2 cosh(acosh(|y|/2)/3) else)."""
    y = mp.mpf(y)
    if abs(y) <= 2:
        th = mp.acos(y / 2)
        cands = [2 * mp.cos((th - 2 * mp.pi * k) / 3) for k in range(3)]
    else:
        cands = [mp.sign(y) * 2 * mp.cosh(mp.acosh(abs(y) / 2) / 3)]
    return min(cands, key=lambda x: max(lo - x, x - hi, 0))


# name -> (torch g, mpmath g, mpmath g', inverse of g on the stretch [lo, hi], sum of the magnitudes of the terms of g
#          (what the rounding of the float evaluation scales with), brackets: one monotone stretch each)
LOCAL_PROGRAMS = {
    "square": (torch.square, lambda x: x * x, lambda x: 2 * x,
               lambda y, lo, hi: mp.sqrt(y) if lo > 0 else -mp.sqrt(y), lambda x: x * x,
               [[-3.0, -1.0], [1.0, 3.0], [-2.0, -0.5], [0.25, 4.0]]),
    "abs": (torch.abs, abs, lambda x: mp.sign(x), lambda y, lo, hi: y if lo > 0 else -y, abs,
            [[-3.0, -1.0], [1.0, 3.0], [-2.0, -0.5], [0.25, 4.0]]),
    "cos": (torch.cos, mp.cos, lambda x: -mp.sin(x),
            lambda y, lo, hi: mp.acos(y) if hi < mp.pi else 2 * mp.pi - mp.acos(y), lambda x: mp.mpf(1),
            [[0.5, 3.0], [3.5, 6.0], [0.25, 2.5], [3.25, 5.75]]),
    "cosh": (torch.cosh, mp.cosh, mp.sinh, lambda y, lo, hi: mp.acosh(y) if lo > 0 else -mp.acosh(y), mp.cosh,
             [[-2.0, -0.5], [0.25, 3.0], [-3.0, -1.0], [1.0, 2.0]]),
    "cubic3": (lambda x: x ** 3 - 3 * x, lambda x: x ** 3 - 3 * x, lambda x: 3 * x * x - 3, _cubic3_inv,
               lambda x: abs(x) ** 3 + 3 * abs(x),
               [[-3.0, -1.5], [-0.75, 0.75], [1.5, 3.0], [-0.5, 0.625]]),
}
# layouts of the bracket tensors relative to the target: name -> (target shape, bracket shape)
LOCAL_LAYOUTS = {"full4": ([4], [4]), "full22": ([2, 2], [2, 2]), "col": ([2, 2], [2, 1]), "row": ([2, 2], [2]),
                 "col23": ([2, 3], [2, 1]), "row23": ([2, 3], [3])}


def _local_elements(block):
    """Per target element: (a, b, lo, hi, frac).  Bracket element j of the bracket tensor uses entry
    (j + bracket_rotation) of the program's stretches (cyclically), the target element broadcasts onto it."""
    g_t, g_m, dg_m, ginv, gmag, stretches = LOCAL_PROGRAMS[block["fn"]]
    tshape, bshape = LOCAL_LAYOUTS[block["layout"]]
    n = _numel(tshape)
    rot, brot = block["rotation"], block["bracket_rotation"]
    fr = block["fractions"]
    els = []
    for i in range(n):
        if len(bshape) == len(tshape) and bshape == tshape:
            j = i
        elif len(bshape) == 2:          # [r, 1]: one bracket per row
            j = i // tshape[1]
        else:                           # [c]: one bracket per column
            j = i % tshape[1]
        lo, hi = stretches[(j + brot) % len(stretches)]
        a = SLOPES[(i + rot) % len(SLOPES)] if block["coeff"] != "plain" else 1.0
        b = OFFSETS[(i + rot) % len(OFFSETS)] if block["coeff"] != "plain" else 0.0
        if block["coeff"] == "per_element_signs" and i % 2:
            a = -a
        els.append({"a": a, "b": b, "lo": lo, "hi": hi, "frac": fr[(i + rot) % len(fr)]})
    return els


@family
def bisect_own_bracket(ctx, block):
    """Element-wise brackets given as tensors (shape of the target, or broadcastable: one bracket per row / per
    column) for functions that are monotone on every element's OWN bracket but not on the hull of the brackets
    (x^2, |x|, cos, cosh, x^3 - 3x: the brackets lie on different sides of the turning points, so the direction
    differs between the elements of one call).  The statement quantifies over functions monotone "on the
    bracket", element-wise: every element must be within precision of the exact root in its bracket."""
    from pfhedge._utils.bisect import bisect
    g_t, g_m, dg_m, ginv, gmag, stretches = LOCAL_PROGRAMS[block["fn"]]
    dtype = DT[block["dtype"]]
    tshape, bshape = LOCAL_LAYOUTS[block["layout"]]
    precision = block["precision"]
    els = _local_elements(block)
    n = len(els)
    a = torch.tensor([e["a"] for e in els], dtype=dtype).reshape(tshape)
    b = torch.tensor([e["b"] for e in els], dtype=dtype).reshape(tshape)
    nb = _numel(bshape)
    brot = block["bracket_rotation"]
    lower = torch.tensor([stretches[(j + brot) % len(stretches)][0] for j in range(nb)], dtype=dtype).reshape(bshape)
    upper = torch.tensor([stretches[(j + brot) % len(stretches)][1] for j in range(nb)], dtype=dtype).reshape(bshape)
    plain = block["coeff"] == "plain"
    model, tg = [], []
    for e in els:
        lo, hi = mp.mpf(e["lo"]), mp.mpf(e["hi"])      # dyadic: exact in float32
        flo, fhi = e["a"] * g_m(lo) + e["b"], e["a"] * g_m(hi) + e["b"]
        tg.append(float(flo + mp.mpf(e["frac"]) * (fhi - flo)))
    target = torch.tensor(tg, dtype=dtype).reshape(tshape)
    for e, y in zip(els, target.reshape(-1).tolist()):
        lo, hi = mp.mpf(e["lo"]), mp.mpf(e["hi"])
        root = ginv((mp.mpf(y) - e["b"]) / e["a"], lo, hi)
        root = min(max(root, lo), hi)
        xs = [root, max(lo, root - 2 * precision), min(hi, root + 2 * precision)]
        model.append({"root": root, "lo": lo, "hi": hi, "y": y,
                      # |slope| is monotone or concave on every stretch used here: its minimum over
                      # [root - 2 precision, root + 2 precision] is taken at one of the three points
                      "slope_min": min(abs(e["a"] * dg_m(x)) for x in xs),
                      "size": abs(e["a"]) * gmag(root) + abs(e["b"]) + abs(y),
                      "direction": 1 if e["a"] * (g_m(hi) - g_m(lo)) > 0 else -1})
    calls = {"n": 0}

    def fn(x):
        calls["n"] += 1
        return g_t(x) if plain else a * g_t(x) + b

    nstar = max(max(0, math.ceil(math.log2(float(m["hi"] - m["lo"]) / precision))) for m in model)
    site = "bisect"
    try:
        with watchdog(nstar + 2):
            out = bisect(fn, target, lower, upper, precision=precision, max_iter=nstar + 2)
    except _Hang:
        ctx.tick(n)
        ctx.violation(site, "hang", f"bisect did not stop within the CPU budget of {nstar + 2} iterations on {block}", block=block)
        return
    except (RuntimeError, ValueError) as e:
        ctx.tick(n)
        ctx.violation(site, "raises_on_per_element_brackets",
                      f"bisect({block['fn']}, brackets {lower.tolist()} .. {upper.tolist()}, target shape {tshape}) raised "
                      f"{type(e).__name__}: {e}; the model completes it in {nstar} halvings",
                      observed=f"{type(e).__name__}: {e}", expected="a root", block=block)
        return
    if tuple(out.shape) != tuple(tshape):
        ctx.tick(n)
        ctx.violation(site, "shape", f"output shape {tuple(out.shape)} != target shape {tuple(tshape)} (brackets of shape {bshape})",
                      observed=list(out.shape), expected=list(tshape), block=block)
        return
    got = out.detach().to(torch.float64).reshape(-1).tolist()
    dirs = {m["direction"] for m in model}
    for i, (e, m, x) in enumerate(zip(els, model, got)):
        tol = precision + float(_eta(m, dtype, precision))
        err = abs(mp.mpf(x) - m["root"])
        if x != x or err > tol:
            ctx.violation(site, "root_own_bracket_" + ("mixed_directions" if len(dirs) > 1 else "one_direction"),
                          f"bisect({block['fn']}, coefficients {block['coeff']}, element {i}: a={e['a']}, b={e['b']}, own bracket "
                          f"[{e['lo']}, {e['hi']}] ({'increasing' if m['direction'] > 0 else 'decreasing'} there), brackets given as "
                          f"tensors lower={lower.tolist()} upper={upper.tolist()}, target {m['y']!r} (fraction {e['frac']}), "
                          f"precision {precision}, target shape {tshape}, {block['dtype']}) = {x!r}; root = {float(m['root'])!r} "
                          f"(|diff| {float(err):.3e} > {tol:.3e})", observed=x, expected=float(m["root"]), block=block)
    ctx.tick(n, nontrivial=n if len(dirs) > 1 else 0)
    ctx.add("own_bracket_calls", 1)
    ctx.add("own_bracket_calls_mixed_directions", 1 if len(dirs) > 1 else 0)
    ctx.add("function_evaluations_by_bisect", calls["n"])
    ctx.outcome(("own", block["fn"], block["layout"], tuple(sorted(dirs)), round(got[0], 6)))


@family
def bisect_subulp(ctx, block):
    """Requested precision positive but finer than the spacing of the bound dtype's floats around the
    root.  Once lower and upper are adjacent floats the bracket cannot shrink any more (the midpoint
    rounds onto one of them), so its width never reaches the precision: the search cannot converge and
    the documented behaviour is RuntimeError at max_iter.  Oracle (both clauses of the statement):
    either RuntimeError, or the returned point really is within the requested precision of the exact
    root (no rounding slack: with adjacent bounds there is no float inside [out - precision, out) that
    could witness a bracket that narrow; only hitting the root exactly satisfies it)."""
    from pfhedge._utils.bisect import bisect
    g_t, g_m, dg_m, ginv_m, _ = PROGRAMS[block["fn"]]
    bd, td = DT[block["bound_dtype"]], DT[block["target_dtype"]]
    shape = tuple(block["shape"])
    n = _numel(shape)
    a = (-1.0 if block["decreasing"] else 1.0) * block["slope"]
    lo, hi = block["bracket"]
    lo_m, hi_m = mp.mpf(float(torch.tensor(lo, dtype=bd))), mp.mpf(float(torch.tensor(hi, dtype=bd)))
    flo, fhi = a * g_m(lo_m), a * g_m(hi_m)
    fr = block["fractions"]
    tg = [float(flo + mp.mpf(fr[i % len(fr)]) * (fhi - flo)) for i in range(n)]
    target = torch.tensor(tg, dtype=td).reshape(shape)
    roots = [min(max(ginv_m(mp.mpf(y) / a), lo_m), hi_m) for y in target.reshape(-1).tolist()]
    precision, max_iter = block["precision"], block["max_iter"]
    # the block must be what it says: precision below half the float spacing at (at least) one root
    if not any(precision < _spacing_below(abs(float(r)), bd) / 2 for r in roots):
        raise HarnessError(f"bisect_subulp block is attainable: {block}")
    lower, upper = torch.tensor(lo, dtype=bd), torch.tensor(hi, dtype=bd)

    def fn(x):
        return a * g_t(x)

    ctx.tick(n, nontrivial=n)
    try:
        with watchdog(max_iter):
            out = bisect(fn, target, lower, upper, precision=precision, max_iter=max_iter)
    except _Hang:
        ctx.violation("bisect", "hang", f"bisect(precision={precision}, max_iter={max_iter}) did not stop", block=block)
        return
    except RuntimeError:
        ctx.outcome(("subulp", block["fn"], block["bound_dtype"], precision, "RuntimeError"))
        ctx.add("subulp_searches_aborted", 1)
        return
    got = out.detach().to(torch.float64).reshape(-1).tolist()
    ctx.outcome(("subulp", block["fn"], block["bound_dtype"], precision, "returned"))
    for i, (x, r) in enumerate(zip(got, roots)):
        err = abs(mp.mpf(x) - r)
        if x != x or err > precision:
            ctx.violation("bisect", "returns_coarser_than_requested_precision",
                          f"bisect({block['fn']}{' decreasing' if block['decreasing'] else ''} x{block['slope']}, bounds "
                          f"[{lo}, {hi}] as {block['bound_dtype']}, target {tg[i]!r} as {block['target_dtype']}, precision="
                          f"{precision}, max_iter={max_iter}) returned {x!r} without error; root = {float(r)!r}, |diff| = "
                          f"{float(err):.3e} > precision (float spacing at the root {_spacing_below(abs(float(r)), bd):.3e}: "
                          f"the bracket cannot get narrower than that, the search cannot converge)",
                          observed=x, expected="RuntimeError, or a point within %g of %r" % (precision, float(r)), block=block)
            return


AUTOGRAD_PROGRAMS = ("poly_grad", "poly_grad_wrapped", "autogreek_delta", "autogreek_delta_wrapped", "lookback_theta")


def _autograd_program(name, dtype):
    """(torch fn, model g in mpmath, exact inverse or None, bracket).  The VALUE of fn is a derivative that fn
    obtains from autograd:
      poly_grad          d/dx (x^4/4 + x^2/2) = x^3 + x by torch.autograd.grad (needs grad mode enabled by the caller)
      poly_grad_wrapped  the same inside ``with torch.enable_grad()`` (works under an ambient no_grad)
      autogreek_delta    pfhedge.autogreek.delta of bs_european_price as a function of log-moneyness (N(d1))
      autogreek_delta_wrapped   the same inside ``with torch.enable_grad()``
      lookback_theta     BSLookbackOption().theta (decorated with enable_grad in /repo) as a function of
                         log-moneyness on a stretch where the model's theta is strictly decreasing"""
    import pfhedge.autogreek as autogreek
    import pfhedge.nn.functional as F
    from pfhedge.nn import BSLookbackOption
    T, V, M = 1.0, 0.2, -0.1
    if name.startswith("poly_grad"):
        def raw(x):
            x = x.detach().clone().requires_grad_()
            y = x ** 4 / 4 + x ** 2 / 2
            return torch.autograd.grad(y.sum(), x)[0]
        g, ginv, bracket = (lambda x: x ** 3 + x), _cubic_inv, [-2.0, 3.0]
    elif name.startswith("autogreek_delta"):
        def raw(x):
            return autogreek.delta(F.bs_european_price, log_moneyness=x, time_to_maturity=torch.full_like(x, T),
                                   volatility=torch.full_like(x, V), strike=1.0)
        w = mp.mpf(V) * mp.sqrt(T)
        # N(d1): the delta of the call w.r.t. the spot K e^x with K = 1 is N(d1) - and autogreek.delta differentiates
        # w.r.t. the spot
        g = lambda x: mp.ncdf(x / w + w / 2)
        ginv = lambda y: w * (mp.sqrt(2) * mp.erfinv(2 * y - 1)) - w * w / 2
        bracket = [-0.5, 0.5]
    elif name == "lookback_theta":
        module = BSLookbackOption(strike=1.0)

        def raw(x):
            return module.theta(log_moneyness=x, max_log_moneyness=torch.full_like(x, M), time_to_maturity=torch.full_like(x, T),
                                volatility=torch.full_like(x, V))
        g = lambda x: B.greek("theta", "lookback", mp.exp(x), mp.exp(mp.mpf(M)), 1, T, V)
        ginv, bracket = None, [-0.6, -0.25]
    else:
        raise KeyError(name)
    if name.endswith("_wrapped"):
        def fn(x):
            with torch.enable_grad():
                return raw(x)
    else:
        fn = raw
    return fn, g, ginv, bracket


@family
def bisect_autograd(ctx, block):
    """Monotone functions whose value is itself computed by autograd, searched with grad mode enabled and
    under an ambient torch.no_grad() (programs that do not enable grad themselves are only run with grad
    enabled: under no_grad they are not functions of x on /repo either)."""
    from pfhedge._utils.bisect import bisect
    name, ambient = block["program"], block["ambient"]
    dtype = torch.float64
    fn, g, ginv, bracket = _autograd_program(name, dtype)
    lo, hi = bracket
    shape = tuple(block["shape"])
    n = _numel(shape)
    precision = block["precision"]
    glo, ghi = g(mp.mpf(lo)), g(mp.mpf(hi))
    if ginv is None:
        # the stretch must be what it says: the model strictly monotone on a grid of the bracket
        grid = [g(mp.mpf(lo) + (mp.mpf(hi) - lo) * k / 8) for k in range(9)]
        if not (all(a < b for a, b in zip(grid, grid[1:])) or all(a > b for a, b in zip(grid, grid[1:]))):
            raise HarnessError(f"{name}: the model is not monotone on {bracket}")
    fr = block["fractions"]
    rot = block["rotation"]
    tg = [float(glo + mp.mpf(fr[(i + rot) % len(fr)]) * (ghi - glo)) for i in range(n)]
    target = torch.tensor(tg, dtype=dtype).reshape(shape)
    lower, upper = torch.tensor(lo, dtype=dtype), torch.tensor(hi, dtype=dtype)
    nstar = max(0, math.ceil(math.log2((hi - lo) / precision)))
    ctx.tick(n, nontrivial=n)
    try:
        with watchdog(nstar + 2, work=10):
            with (torch.no_grad if ambient == "no_grad" else torch.enable_grad)():
                out = bisect(fn, target, lower, upper, precision=precision, max_iter=nstar + 2)
    except _Hang:
        ctx.violation("bisect", "hang", f"bisect({name}, ambient {ambient}) did not stop", block=block)
        return
    except RuntimeError as e:
        ctx.violation("bisect", "autograd_valued_function_raises",
                      f"bisect({name}) with ambient grad mode '{ambient}' raised {type(e).__name__}: {str(e)[:160]}; the function "
                      f"evaluates fine when called directly in that mode and the model completes the search in {nstar} halvings",
                      observed=f"{type(e).__name__}: {str(e)[:200]}", expected="a root", block=block)
        return
    if tuple(out.shape) != shape:
        ctx.violation("bisect", "shape", f"output shape {tuple(out.shape)} != {shape}", block=block)
        return
    got = out.detach().to(torch.float64).reshape(-1).tolist()
    eps = 2.0 ** -52
    for i, (x, y) in enumerate(zip(got, tg)):
        if ginv is not None:
            root = min(max(ginv(mp.mpf(y)), mp.mpf(lo)), mp.mpf(hi))
            # value rounding of an autograd-evaluated smooth function: 64 eps relative, moved to x by the slope
            slope = abs(mp.diff(g, root))
            ok = abs(mp.mpf(x) - root) <= precision + 64 * eps * (abs(mp.mpf(y)) + 1) / slope
            exp_ = float(root)
        else:
            # residual oracle: the model's values at x -+ precision bracket the target (up to the rounding of the
            # implementation's Greek, 1e-10 relative - cf. the derived tolerance of C08)
            a, b = g(max(mp.mpf(x) - precision, mp.mpf(lo))), g(min(mp.mpf(x) + precision, mp.mpf(hi)))
            tolv = 1e-10 * (abs(y) + 1e-6)
            ok = min(a, b) - tolv <= y <= max(a, b) + tolv
            exp_ = f"x with model value {y!r}"
        if x != x or not ok:
            ctx.violation("bisect", "root_of_autograd_valued_function",
                          f"bisect({name}, element {i}, bracket {bracket}, target {y!r}, precision {precision}, ambient grad mode "
                          f"'{ambient}') = {x!r}" + (f"; root = {exp_!r}" if ginv is not None else
                                                     f"; the model's value there is {float(g(mp.mpf(x)))!r}"),
                          observed=x, expected=exp_, block=block)
            return
    ctx.outcome(("autograd", name, ambient, round(got[0], 6)))


class default_dtype:
    """torch.set_default_dtype for the duration of one call (restored even on error)."""

    def __init__(self, name):
        self.new = DT[name]

    def __enter__(self):
        self.old = torch.get_default_dtype()
        torch.set_default_dtype(self.new)

    def __exit__(self, *a):
        torch.set_default_dtype(self.old)
        return False


@family
def bisect_rank(ctx, block):
    """Targets of lower rank than the function's output (0-dim, or a trailing-axis vector under a matrix-valued
    function): every output element has its own root for the (broadcast) target.  float64 throughout, under
    default dtype float32 and float64; the result must have the broadcast shape and stay float64 (tight
    precisions make any detour through float32 visible)."""
    from pfhedge._utils.bisect import bisect
    g_t, g_m, dg_m, ginv_m, _ = PROGRAMS[block["fn"]]
    shape, tshape = tuple(block["shape"]), tuple(block["tshape"])
    n = _numel(shape)
    sgn = -1.0 if block["decreasing"] else 1.0
    avals = [sgn * [1.0, 2.0, 3.0, 1.5][i % 4] for i in range(n)]   # per-element slopes whose ranges overlap on the bracket
    bvals = [0.0] * n
    lo, hi = block["bracket"]
    precision = block["precision"]
    lo_m, hi_m = mp.mpf(lo), mp.mpf(hi)
    # a target every element can attain: between the largest lower end and the smallest upper end of the ranges
    ends = [sorted([a * g_m(lo_m) + b, a * g_m(hi_m) + b]) for a, b in zip(avals, bvals)]
    tlo, thi = max(e[0] for e in ends), min(e[1] for e in ends)
    if not tlo < thi:
        raise HarnessError(f"bisect_rank: no common target for {block}")
    nt = _numel(tshape)
    fr = block["fractions"]
    tvals = [float(tlo + mp.mpf(fr[(k + block["rotation"]) % len(fr)]) * (thi - tlo)) for k in range(nt)]
    tdtype = {"float64": torch.float64, "float32": torch.float32, "int64": torch.int64}[block.get("target_dtype", "float64")]
    if tdtype == torch.int64:
        tvals = [int(min(max(round(y), math.ceil(float(tlo) + 1e-9)), math.floor(float(thi) - 1e-9))) for y in tvals]
        if not all(tlo < y < thi for y in tvals):
            raise HarnessError(f"bisect_rank: no integer target in the common range for {block}")
    elif tdtype == torch.float32:
        tvals = [float(torch.tensor(y, dtype=torch.float32)) for y in tvals]
    with default_dtype(block["default_dtype"]):
        a = torch.tensor(avals, dtype=torch.float64).reshape(shape)
        b = torch.tensor(bvals, dtype=torch.float64).reshape(shape)
        target = torch.tensor(tvals, dtype=tdtype).reshape(tshape)
        bk = block["bounds"]
        int_bounds = bk.startswith("int")
        if bk == "full":
            lower, upper = torch.full(shape, lo, dtype=torch.float64), torch.full(shape, hi, dtype=torch.float64)
        elif bk == "0-dim":
            lower, upper = torch.tensor(lo, dtype=torch.float64), torch.tensor(hi, dtype=torch.float64)
        # integer-typed brackets: the midpoints are not integers, the search proceeds in floating point
        elif bk == "int":                   # python ints
            lower, upper = int(lo), int(hi)
        elif bk == "int_tensor":            # 0-dim int64 tensors
            lower, upper = torch.tensor(int(lo)), torch.tensor(int(hi))
        elif bk == "int_tensor_full":       # per-element int64 tensors
            lower, upper = torch.full(shape, int(lo), dtype=torch.int64), torch.full(shape, int(hi), dtype=torch.int64)
        elif bk == "int_lower_float_upper":
            lower, upper = int(lo), torch.tensor(float(hi), dtype=torch.float64)
        else:
            raise KeyError(bk)
        tfull = target.expand(shape).reshape(-1).tolist()
        nstar = max(0, math.ceil(math.log2((hi - lo) / precision)))
        ctx.tick(n, nontrivial=n)
        try:
            with watchdog(nstar + 2):
                out = bisect(lambda x: a * g_t(x) + b, target, lower, upper, precision=precision, max_iter=nstar + 2)
        except _Hang:
            ctx.violation("bisect", "hang", f"bisect did not stop on {block}", block=block)
            return
        except RuntimeError as e:
            ctx.violation("bisect", "raises_on_attainable_precision", f"RuntimeError (max_iter={nstar + 2}) on {block}: {e}",
                          observed=str(e), expected="roots", block=block)
            return
    want_float64 = not int_bounds or bk == "int_lower_float_upper"
    if tuple(out.shape) != shape or (out.dtype != torch.float64 if want_float64 else not out.is_floating_point()):
        ctx.violation("bisect", "shape_or_dtype_lower_rank_target",
                      f"target of shape {list(tshape)} under a function of shape {list(shape)} (target dtype {block.get('target_dtype', 'float64')}, bounds and coefficients float64, default dtype "
                      f"{block['default_dtype']}): result shape {list(out.shape)} dtype {out.dtype}",
                      observed=[list(out.shape), str(out.dtype)], expected=[list(shape), "torch.float64" if want_float64 else "a floating dtype"],
                      block=block)
        return
    eps = float(torch.finfo(out.dtype).eps)     # the dtype the search ran in
    for i, (x, y) in enumerate(zip(out.to(torch.float64).reshape(-1).tolist(), tfull)):
        root = ginv_m((mp.mpf(y) - bvals[i]) / avals[i])
        slope = abs(avals[i] * dg_m(root))
        size = abs(avals[i] * g_m(root)) + abs(bvals[i]) + abs(y)
        tol = precision + 8 * eps * size / slope + 4 * eps * max(abs(lo), abs(hi))
        if x != x or abs(mp.mpf(x) - root) > tol:
            ctx.violation("bisect", "root_lower_rank_target",
                          f"bisect({block['fn']}{' decreasing' if block['decreasing'] else ''}, element {i}: a={avals[i]}, b={bvals[i]}, "
                          f"bracket [{lo}, {hi}] ({block['bounds']} bounds), target {y!r} given with shape {list(tshape)} to a function "
                          f"of shape {list(shape)}, precision {precision}, default dtype {block['default_dtype']}) = {x!r}; root = "
                          f"{float(root)!r} (|diff| {float(abs(mp.mpf(x) - root)):.3e} > {float(tol):.3e})",
                          observed=x, expected=float(root), block=block)
            return
    ctx.outcome(("rank", block["fn"], block["decreasing"], tuple(tshape), round(float(out.reshape(-1)[0]), 9)))


@family
def bisect_abort(ctx, block):
    """Iteration budget.  Exact arithmetic: the width after n halvings is W / 2^n; the loop runs while
    width > precision, so it needs n* = min{n : W/2^n <= precision} halvings (infinitely many for
    precision 0).  Documented contract: RuntimeError iff the number of iterations exceeds max_iter,
    i.e. iff n* > max_iter.  Brackets and precisions here are dyadic, so floating point follows the
    exact arithmetic."""
    from pfhedge._utils.bisect import bisect
    dtype = DT[block["dtype"]]
    lo, hi = block["bracket"]
    precision, max_iter = block["precision"], block["max_iter"]
    W = hi - lo
    if precision <= 0:
        nstar = math.inf
    else:
        nstar = 0
        while W / 2 ** nstar > precision:
            nstar += 1
            if nstar > 4000:
                nstar = math.inf
                break
    # in floating point the width cannot go below one ulp: if precision is below the spacing of the
    # floats around the root, the search cannot converge either
    shape = tuple(block["shape"])
    n = _numel(shape)
    sign = -1.0 if block["decreasing"] else 1.0
    fr = block["fractions"]
    tg = [sign * (lo + fr[i % len(fr)] * W) for i in range(n)]
    target = torch.tensor(tg, dtype=dtype).reshape(shape)
    ulp = min(abs(math.ulp(x)) if dtype == torch.float64 else float(torch.finfo(dtype).eps) * abs(x) / 2 for x in
              [abs(t) + 2.0 ** -60 for t in tg])
    if precision < ulp:
        nstar = math.inf
    expect_raise = nstar > max_iter
    lower, upper = torch.tensor(lo, dtype=dtype), torch.tensor(hi, dtype=dtype)
    calls = {"n": 0}

    def fn(x):
        calls["n"] += 1
        return sign * x

    ctx.tick(1, nontrivial=1)
    try:
        # budget from the iteration count the caller allows
        with watchdog(max_iter):
            out = bisect(fn, target, lower, upper, precision=precision, max_iter=max_iter)
        raised = None
    except _Hang:
        ctx.violation("bisect", "hang", f"bisect(precision={precision}, max_iter={max_iter}) on [{lo}, {hi}] did not stop "
                      f"within the watchdog; the model needs "
                      f"{nstar} halvings", observed="hang", expected="RuntimeError" if expect_raise else "a root", block=block)
        return
    except RuntimeError as e:
        raised = e
    ctx.outcome((precision, max_iter, bool(raised)))
    if expect_raise and raised is None:
        ctx.violation("bisect", "no_abort", f"bisect(precision={precision}, max_iter={max_iter}) on [{lo}, {hi}] returned "
                      f"{out.reshape(-1).tolist()} although {nstar} > max_iter halvings are needed",
                      observed=out, expected="RuntimeError", block=block)
    elif not expect_raise and raised is not None:
        ctx.violation("bisect", "abort_within_budget", f"bisect(precision={precision}, max_iter={max_iter}) on [{lo}, {hi}] raised "
                      f"although exactly {nstar} <= max_iter halvings suffice: {raised}",
                      observed=str(raised), expected="a root", block=block)
    elif raised is None:
        got = out.to(torch.float64).reshape(-1).tolist()
        for x, y in zip(got, tg):
            if abs(x - sign * y) > precision:
                ctx.violation("bisect", "root_dyadic", f"bisect on the identity (sign {sign}) target {y}: returned {x}, precision {precision}",
                              observed=x, expected=sign * y, block=block)


# ------------------------------------------------------------------------------------------------
# implied volatility
# ------------------------------------------------------------------------------------------------

CLASSES = {"european": "BSEuropeanOption", "european_binary": "BSEuropeanBinaryOption",
           "american_binary": "BSAmericanBinaryOption", "lookback": "BSLookbackOption"}
NEEDS_MAX = ("american_binary", "lookback")
V_GRID = [0.001, 0.002, 0.005, 0.01, 0.03, 0.07, 0.15, 0.3, 0.5, 0.7, 0.9, 1.0]
V_LO, V_HI = 0.001, 1.0
# the model decides monotonicity from the sign of its own vega at these volatilities (both ends of the
# bracket included, log-spaced in between)
MONO_GRID = [V_LO * (V_HI / V_LO) ** (i / 30) for i in range(31)]
_MONO = {}
_PRICE = {}


def model_price(product, call, s, m, t, v):
    """Unit-strike closed-form price (prices scale with the strike: models/bs_closed.py, verified in C08)."""
    key = (product, call, s, m, t, v)
    r = _PRICE.get(key)
    if r is None:
        r = _PRICE[key] = B.price(product, mp.exp(mp.mpf(s)), mp.exp(mp.mpf(m)), 1, t, v, call)
    return r


def monotone_direction(product, call, s, m, t, lo=None, hi=None, floor=V_LO):
    """+1 / -1 if the model's vega has one strict sign on the whole bracket (at 31 log-spaced points, ends
    included; default bracket [0.001, 1], a lower end below ``floor`` (default 0.001) is replaced by it), else 0."""
    grid = MONO_GRID
    if lo is not None:
        lo_ = max(lo, floor)
        grid = [lo_ * (hi / lo_) ** (i / 30) for i in range(31)]
    key = (product, call, s, m, t, lo, hi, floor)
    r = _MONO.get(key)
    if r is None:
        S, M = mp.exp(mp.mpf(s)), mp.exp(mp.mpf(m))
        if product == "american_binary" and m >= 0:
            r = 0     # already hit: the price is the constant 1
        else:
            # European products: the sign of the vega is read off the out-of-the-money side, whose price is
            # small and keeps its relative precision in mpmath (call and put have the same vega; binary call
            # and put have opposite vegas: call + put = 1) - deep in the money the time value is below 1e-30
            # of the price and a 30-digit derivative cannot see it
            side, flip = call, 1
            if product in ("european", "european_binary"):
                side = s <= 0
                flip = -1 if (product == "european_binary" and side != call) else 1
            signs = set()
            for v in grid:
                if product == "lookback":
                    # same idea: differentiate the volatility-dependent part of the price (price minus the
                    # intrinsic value max(M - K, 0)), which keeps its relative precision
                    g = mp.diff(lambda x: B.lookback_time_value(S, M, 1, t, x), mp.mpf(v))
                else:
                    g = flip * B.greek("vega", product, S, M, 1, t, v, side)
                signs.add(1 if g > 0 else (-1 if g < 0 else 0))
                if len(signs) > 1:
                    break
            r = signs.pop() if len(signs) == 1 else 0
        _MONO[key] = r
    return r


def price_tol(product, s, m, t, v, K, p, eps=2.0 ** -52):
    """Rounding of the implementation's float64 price (same derivation as in C08): terms of size
    <= K (e^s + e^m + 1)(1 + w(1 + |d|)), inputs move d by eps (1+|s|+|m|)/w."""
    w = v * math.sqrt(t)
    d = abs(s) / w + w / 2
    if product in NEEDS_MAX:
        d = max(d, abs(s - m) / w + w / 2)
    d = min(d, 40.0)
    U = K if product in ("european", "lookback") else 1.0
    size = U * (math.exp(s) + math.exp(m) + 1) * (1 + w * (1 + d))
    return 64 * eps * (1 + (1 + abs(s) + abs(m)) / w) * (abs(p) + size)


def _module(product, call, K):
    import pfhedge.nn as nn
    cls = getattr(nn, CLASSES[product])
    return cls(strike=K) if product in NEEDS_MAX else cls(call=call, strike=K)


def _price_call(module, product, lm, mm, t, v):
    if product in NEEDS_MAX:
        return module.price(log_moneyness=lm, max_log_moneyness=mm, time_to_maturity=t, volatility=v)
    return module.price(log_moneyness=lm, time_to_maturity=t, volatility=v)


def _iv_call(module, product, lm, mm, t, v, precision):
    if product in NEEDS_MAX:
        price = module.price(log_moneyness=lm, max_log_moneyness=mm, time_to_maturity=t, volatility=v)
        kw = {} if precision is None else {"precision": precision}
        return price, module.implied_volatility(log_moneyness=lm, max_log_moneyness=mm, time_to_maturity=t, price=price, **kw)
    price = module.price(log_moneyness=lm, time_to_maturity=t, volatility=v)
    kw = {} if precision is None else {"precision": precision}
    return price, module.implied_volatility(log_moneyness=lm, time_to_maturity=t, price=price, **kw)


def _iv_verdict(product, call, K, case, v, iv, precision, direction, lo_b=None, hi_b=None, eps=2.0 ** -52):
    """Price-space oracle.  f = the model's price (strictly monotone, direction d).  The returned iv is
    within `precision` of a volatility reproducing the price iff (for d = +1)
        f(min(iv + precision, 1)) >= f(v) - tolP   and   f(max(iv - precision, 0.001)) <= f(v) + tolP,
    tolP = rounding of the implementation's price evaluations (which bisect compares).  Returns
    (ok, informative) - informative: the price pins v down to ~precision (f moves by more than
    10 tolP over 2 precisions), so the case is not vacuous."""
    s, m, t = case
    U = K if product in ("european", "lookback") else 1
    f = lambda x: U * model_price(product, call, s, m, t, max(float(x), 1e-12))
    fv = f(v)
    lo_b = V_LO if lo_b is None else lo_b
    hi_b = V_HI if hi_b is None else hi_b
    tolP = price_tol(product, s, m, t, v, K, float(fv), eps)
    # candidates are volatilities of the bracket (the model's monotonicity is only established there)
    hi, lo = f(min(iv + precision, hi_b)), f(max(iv - precision, lo_b))
    if direction < 0:
        hi, lo = lo, hi
    ok = (hi >= fv - tolP) and (lo <= fv + tolP)
    informative = abs(f(min(v + 2 * precision, hi_b)) - f(max(v - 2 * precision, lo_b))) > 10 * tolP
    return ok, informative, float(fv), tolP


def _cases(block):
    if "cases" in block:
        return [tuple(c) for c in block["cases"]]
    g = block["grid"]
    out = []
    for s in g["s"]:
        for t in g["t"]:
            mspecs = g["m"] if block["product"] in NEEDS_MAX else [["off", 0.0]]
            for kind, val in mspecs:
                m = s + val if kind == "off" else val
                if m >= s:
                    out.append((s, m, t))
    return out


@family
def iv_cases(ctx, block):
    product, call, K = block["product"], block["call"], block["K"]
    precision = block.get("precision")
    prec = 1e-6 if precision is None else precision
    module = _module(product, call, K)
    vs = block.get("v", V_GRID)
    site = f"{CLASSES[product]}.implied_volatility"
    for case in _cases(block):
        s, m, t = case
        d = monotone_direction(product, call, s, m, t)
        if d == 0:
            ctx.add("iv_cases_excluded_not_monotone", 1)
            continue
        n = len(vs)
        lm = torch.full((n,), s, dtype=torch.float64)
        mm = torch.full((n,), m, dtype=torch.float64)
        tt = torch.full((n,), t, dtype=torch.float64)
        vv = torch.tensor(vs, dtype=torch.float64)
        mini = dict(block, cases=[list(case)])
        mini.pop("grid", None)
        try:
            with watchdog(100, work=10):
                price, iv = _iv_call(module, product, lm, mm, tt, vv, precision)
        except _Hang:
            ctx.violation(site, "hang", f"implied_volatility did not stop within the CPU budget of its 100 iterations at {case}", block=mini)
            continue
        except RuntimeError as e:
            ctx.tick(n)
            ctx.violation(site, "raises", f"{site}(s={s}, m={m}, t={t}, K={K}, precision={prec}) raised {e} although "
                          f"{math.ceil(math.log2((V_HI - V_LO) / prec))} halvings of [0.001, 1] suffice",
                          observed=str(e), expected="implied volatilities", block=mini)
            continue
        if tuple(iv.shape) != (n,):
            ctx.violation(site, "shape", f"shape {tuple(iv.shape)}", block=mini)
            continue
        nontriv = 0
        for v, x in zip(vs, iv.tolist()):
            ok, informative, fv, tolP = _iv_verdict(product, call, K, case, v, x, prec, d)
            nontriv += informative
            if x != x or not ok:
                b1 = dict(mini, v=[v])
                ctx.violation(site, "iv_" + ("increasing" if d > 0 else "decreasing"),
                              f"{site}(s={s}, m={m}, t={t}, K={K}, call={call}, precision={prec}): price(v={v}) = {fv!r} gives "
                              f"iv = {x!r}; no volatility within {prec} of it reproduces the price (model price there differs by "
                              f"more than {tolP:.2e})", observed=x, expected=v, block=b1)
        ctx.tick(n, nontrivial=nontriv)
        ctx.outcome((product, call, case, round(float(iv[n // 2]), 6)))
    if len(ctx.samples) < 6 and product in ("european_binary", "lookback") and "grid" in block:
        ctx.sample({"family": "iv_cases", "module": CLASSES[product], "call": call, "strike": K, "case(s,m,t)": list(case),
                    "volatilities": vs, "direction": d})


@family
def iv_batch(ctx, block):
    """All monotone cases of one direction x all volatilities in ONE implied_volatility call."""
    product, call, K = block["product"], block["call"], block["K"]
    prec = 1e-6
    module = _module(product, call, K)
    vs = block.get("v", V_GRID)
    site = f"{CLASSES[product]}.implied_volatility"
    want = block["direction"]
    cases = [c for c in _cases(block) if monotone_direction(product, call, *c) == want]
    if not cases:
        return
    rows = [(c, v) for c in cases for v in vs]
    lm = torch.tensor([c[0] for c, v in rows], dtype=torch.float64)
    mm = torch.tensor([c[1] for c, v in rows], dtype=torch.float64)
    tt = torch.tensor([c[2] for c, v in rows], dtype=torch.float64)
    vv = torch.tensor([v for c, v in rows], dtype=torch.float64)
    try:
        with watchdog(100, work=10 + len(rows) / 20):
            price, iv = _iv_call(module, product, lm, mm, tt, vv, None)
    except _Hang:
        ctx.violation(site, "hang", "implied_volatility did not stop within the CPU budget of its 100 iterations", block=block)
        return
    except RuntimeError as e:
        ctx.tick(len(rows))
        ctx.violation(site, "raises_batch", f"{site} on a batch of {len(rows)} raised {e}", observed=str(e), block=block)
        return
    # which elements are constant in floating point between the ends of the bracket
    with torch.no_grad():
        lo_p = _price_call(module, product, lm, mm, tt, torch.full_like(vv, V_LO))
        hi_p = _price_call(module, product, lm, mm, tt, torch.full_like(vv, V_HI))
    flat = (lo_p == hi_p)
    flat_cases = sorted({rows[i][0] for i in flat.nonzero().flatten().tolist()})
    nontriv = 0
    for i, ((case, v), x) in enumerate(zip(rows, iv.tolist())):
        ok, informative, fv, tolP = _iv_verdict(product, call, K, case, v, x, prec, want)
        nontriv += informative
        if x != x or not ok:
            cls = "iv_batch_" + ("increasing" if want > 0 else "decreasing")
            mini = {k: block[k] for k in ("product", "call", "K", "direction")}
            mini["cases"] = [list(case)]
            mini["v"] = [v]
            if want < 0 and flat_cases:
                # defect model: the direction test `(fn(lower) > fn(upper)).all()` fails as soon as one
                # element of the batch is constant in floating point, and the whole batch is then searched
                # as if increasing: a strictly decreasing element is then driven to an end of the bracket
                # (the upper end if its root lies below the first midpoint, else the lower end)
                if (abs(x - V_HI) <= 2 * prec or abs(x - V_LO) <= 2 * prec) and bool(flat.any()) and not bool(flat[i]):
                    cls = "batch_direction_flipped_by_flat_element"
                    mini["cases"] = [list(case), list(flat_cases[0])]
            ctx.violation(site, cls,
                          f"{site} on a batch of {len(rows)} (s, m, t, v) points, element (s={case[0]}, m={case[1]}, t={case[2]}, "
                          f"v={v}), K={K}, call={call}: price {fv!r} gives iv = {x!r}"
                          + (f"; {int(flat.sum())} other elements of the batch (e.g. {flat_cases[0]}) have price(v=0.001) == price(v=1) in float64"
                             if cls.startswith("batch_direction") else ""),
                          observed=x, expected=v, block=mini)
    ctx.tick(len(rows), nontrivial=nontriv)
    ctx.add("iv_batch_elements_flat_in_float64", int(flat.sum()))
    ctx.outcome((product, call, want, len(rows), round(float(iv.sum()), 6)))


@family
def iv_bound(ctx, block):
    """Modules attached to a derivative (BlackScholes(derivative)): price() and implied_volatility() read
    log-moneyness, running maximum and time from the derivative's buffers (scripted market, all |A|^T paths);
    arguments the caller leaves out must be the derivative's own - the volatility that generated the price is
    recovered element-wise on every (path, step) with time to maturity > 0 whose model price is monotone."""
    from mc.core import market
    from mc.core.explore import all_paths
    from pfhedge.nn import BlackScholes
    product, call, K = block["product"], block["call"], block["K"]
    T, A, dt, sigma = block["T"], block["A"], block["dt"], block["sigma"]
    prec = 1e-6
    spot = all_paths(A, T, dtype=torch.float64)
    if block.get("rows") is not None:
        spot = spot[block["rows"]]
    stock = market.primary("brownian", dtype=torch.float64, dt=dt, sigma=sigma)
    market.set_buffers(stock, spot=spot)
    kw = {"strike": K}
    if product in ("european", "european_binary"):
        kw["call"] = call
    deriv = market.derivative(product, stock, T=T, **kw)
    module = BlackScholes(deriv)
    site = f"BlackScholes({CLASSES[product][2:]}).implied_volatility"
    lm, tt = deriv.log_moneyness(), deriv.time_to_maturity()
    mm = deriv.max_log_moneyness() if product in NEEDS_MAX else lm
    N = spot.size(0)
    for given in block.get("given", ["none", "log_moneyness+time_to_maturity"]):
        try:
            with watchdog(100, work=10):
                price = module.price()
                args = {} if given == "none" else {"log_moneyness": lm.clone(), "time_to_maturity": tt.clone()}
                iv = module.implied_volatility(price=price, **args)
        except _Hang:
            ctx.violation(site, "hang", "implied_volatility did not stop within the CPU budget of its 100 iterations", block=block)
            continue
        except RuntimeError as e:
            ctx.tick(N * (T - 1))
            ctx.violation(site, "raises", f"{site}(price=price(), arguments given: {given}) raised {e}", observed=str(e), block=block)
            continue
        if tuple(iv.shape) != (N, T):
            ctx.violation(site, "shape", f"shape {tuple(iv.shape)} != {(N, T)}", block=block)
            continue
        nontriv = 0
        for i in range(N):
            for j in range(T - 1):
                case = (float(lm[i, j]), float(mm[i, j]), float(tt[i, j]))
                d = monotone_direction(product, call, *case)
                if d == 0:
                    ctx.add("iv_cases_excluded_not_monotone", 1)
                    continue
                x = float(iv[i, j])
                ok, informative, fv, tolP = _iv_verdict(product, call, K, case, sigma, x, prec, d)
                nontriv += informative
                if x != x or not ok:
                    b = dict(block, rows=[block["rows"][i] if block.get("rows") is not None else i], given=[given])
                    ctx.violation(site, "iv_bound_" + ("increasing" if d > 0 else "decreasing"),
                                  f"{site}(price=price()) with arguments given: {given}; path {spot[i].tolist()} step {j} "
                                  f"(s={case[0]}, m={case[1]}, t={case[2]}, K={K}, volatility {sigma}): price {fv!r} gives iv = {x!r}",
                                  observed=x, expected=sigma, block=b)
        ctx.tick(N * (T - 1), nontrivial=nontriv)
        ctx.outcome((product, call, "bound", given, sigma, round(float(iv[N // 2, 0]), 6)))


def _iv_entry(entry, product, call, K, dtype):
    """callable(lm, mm, t, price, **kw) for one implied-volatility entry point.
    'module': BS*Option(...).implied_volatility (kw: precision);
    'functional': pfhedge._utils.bisect.find_implied_volatility on the module's price (kw: precision, lower,
    upper, max_iter); 'functional_bs': the same on the functional bs_*_price."""
    from pfhedge._utils.bisect import find_implied_volatility
    import pfhedge.nn.functional as F
    module = _module(product, call, K)
    if entry == "module":
        if product in NEEDS_MAX:
            return lambda lm, mm, t, price, **kw: module.implied_volatility(
                log_moneyness=lm, max_log_moneyness=mm, time_to_maturity=t, price=price, **kw)
        return lambda lm, mm, t, price, **kw: module.implied_volatility(log_moneyness=lm, time_to_maturity=t, price=price, **kw)
    if entry == "functional":
        pricer = module.price
    else:
        base = getattr(F, f"bs_{product}_price")
        if product == "european":
            pricer = lambda log_moneyness, time_to_maturity, volatility: base(log_moneyness, time_to_maturity, volatility, strike=K, call=call)
        elif product == "european_binary":
            pricer = lambda log_moneyness, time_to_maturity, volatility: base(log_moneyness, time_to_maturity, volatility, call=call)
        elif product == "american_binary":
            pricer = lambda log_moneyness, max_log_moneyness, time_to_maturity, volatility: base(
                log_moneyness, max_log_moneyness, time_to_maturity, volatility)
        else:
            pricer = lambda log_moneyness, max_log_moneyness, time_to_maturity, volatility: base(
                log_moneyness, max_log_moneyness, time_to_maturity, volatility, strike=K)
    if product in NEEDS_MAX:
        return lambda lm, mm, t, price, **kw: find_implied_volatility(
            pricer, price, log_moneyness=lm, max_log_moneyness=mm, time_to_maturity=t, **kw)
    return lambda lm, mm, t, price, **kw: find_implied_volatility(pricer, price, log_moneyness=lm, time_to_maturity=t, **kw)


@family
def iv_subulp(ctx, block):
    """Requested precision positive but below half the float spacing of the price's dtype at the volatility
    that generated the price, through every implied-volatility entry point.  The bracket cannot get that
    narrow (adjacent floats), so the search cannot converge within its 100 iterations: RuntimeError - or a
    result that really is within the requested precision of the generating volatility."""
    product, call, K = block["product"], block["call"], block["K"]
    dtype = DT[block["dtype"]]
    precision = block["precision"]
    vs = block["v"]
    for entry in block.get("entries", ["module", "functional", "functional_bs"]):
        run = _iv_entry(entry, product, call, K, dtype)
        module = _module(product, call, K)
        site = f"{CLASSES[product]}.implied_volatility" if entry == "module" else "find_implied_volatility"
        for case in _cases(block):
            s, m, t = case
            if monotone_direction(product, call, s, m, t) == 0:
                continue
            n = len(vs)
            lm, mm, tt = (torch.full((n,), x, dtype=dtype) for x in (s, m, t))
            vv = torch.tensor(vs, dtype=dtype)
            vfloat = vv.to(torch.float64).tolist()
            if not all(precision < _spacing_below(x, dtype) / 2 for x in vfloat):
                raise HarnessError(f"iv_subulp block is attainable: {block}")
            price = _price_call(module, product, lm, mm, tt, vv)
            mini = dict(block, cases=[list(case)], entries=[entry])
            mini.pop("grid", None)
            ctx.tick(n, nontrivial=n)
            try:
                with watchdog(100, work=10):
                    iv = run(lm, mm, tt, price, precision=precision)
            except _Hang:
                ctx.violation(site, "hang", f"{entry} implied volatility (precision={precision}) did not stop at {case}", block=mini)
                continue
            except RuntimeError:
                ctx.add("iv_subulp_searches_aborted", 1)
                ctx.outcome(("iv_subulp", entry, product, block["dtype"], "RuntimeError"))
                continue
            ctx.outcome(("iv_subulp", entry, product, block["dtype"], "returned"))
            for v, x in zip(vfloat, iv.to(torch.float64).tolist()):
                if x != x or abs(x - v) > precision:
                    ctx.violation(site, "returns_coarser_than_requested_precision",
                                  f"{entry} implied volatility of {CLASSES[product]}(call={call}, strike={K}) at (s={s}, m={m}, t={t}), "
                                  f"{block['dtype']}, precision={precision}: returned {x!r} without error for the price of volatility "
                                  f"{v!r}; the floats of this dtype are {_spacing_below(v, dtype):.2e} apart there, so no bracket "
                                  f"narrower than the request exists: the search cannot converge and must abort",
                                  observed=x, expected=f"RuntimeError, or a value within {precision} of {v!r}", block=dict(mini, v=[v]))
                    break


@family
def iv_scalar_price(ctx, block):
    """ONE float64 price (0-dim tensor) inverted against vector log-moneyness / maturity: each element has its own
    implied volatility for that price.  Every entry point, tight precisions, default dtype float32 and float64."""
    product, call, K = block["product"], block["call"], block["K"]
    precision = block["precision"]
    cases = [tuple(c) for c in block["cases"]]
    s0, m0, t0 = cases[len(cases) // 2]
    U = K if product in ("european", "lookback") else 1
    P = float(U * model_price(product, call, s0, m0, t0, block["v"]))
    for entry in block.get("entries", ["module", "functional", "functional_bs"]):
        site = f"{CLASSES[product]}.implied_volatility" if entry == "module" else "find_implied_volatility"
        with default_dtype(block["default_dtype"]):
            run = _iv_entry(entry, product, call, K, torch.float64)
            lm = torch.tensor([c[0] for c in cases], dtype=torch.float64)
            mm = torch.tensor([c[1] for c in cases], dtype=torch.float64)
            tt = torch.tensor([c[2] for c in cases], dtype=torch.float64)
            price = torch.tensor(P, dtype=torch.float64)
            mini = dict(block, entries=[entry])
            ctx.tick(len(cases), nontrivial=len(cases))
            try:
                with watchdog(100, work=10):
                    iv = run(lm, mm, tt, price, precision=precision)
            except _Hang:
                ctx.violation(site, "hang", f"{entry} implied volatility of a scalar price did not stop", block=mini)
                continue
            except RuntimeError as e:
                ctx.violation(site, "raises", f"{entry} implied volatility of the scalar float64 price {P!r} against vector "
                              f"log-moneyness/maturity (precision {precision}) raised {e} although "
                              f"{math.ceil(math.log2((V_HI - V_LO) / precision))} halvings suffice", observed=str(e), block=mini)
                continue
        if tuple(iv.shape) != (len(cases),) or iv.dtype != torch.float64:
            ctx.violation(site, "shape_or_dtype_scalar_price", f"{entry}: result shape {list(iv.shape)} dtype {iv.dtype}",
                          observed=[list(iv.shape), str(iv.dtype)], expected=[[len(cases)], "torch.float64"], block=mini)
            continue
        for (s, m, t), x in zip(cases, iv.tolist()):
            d = monotone_direction(product, call, s, m, t)
            f = lambda v: U * model_price(product, call, s, m, t, v)
            if d == 0 or not (min(f(V_LO), f(V_HI)) < P < max(f(V_LO), f(V_HI))):
                ctx.add("iv_scalar_price_elements_skipped", 1)
                continue
            tolP = price_tol(product, s, m, t, max(x, V_LO), K, P)
            a, b = f(max(x - precision, V_LO)), f(min(x + precision, V_HI))
            if x != x or not (min(a, b) - tolP <= P <= max(a, b) + tolP):
                ctx.violation(site, "iv_scalar_price",
                              f"{entry} implied volatility of {CLASSES[product]}(call={call}, strike={K}) for the scalar float64 price "
                              f"{P!r} at (s={s}, m={m}, t={t}), precision {precision}, default dtype {block['default_dtype']}: iv = "
                              f"{x!r}, but the model price there is {float(f(x))!r} (|diff| {abs(float(f(x)) - P):.3e} > {tolP:.1e})",
                              observed=x, expected=f"volatility with price {P!r}", block=mini)
                break
        ctx.outcome(("iv_scalar", entry, product, call, block["default_dtype"], round(float(iv[0]), 9)))


@family
def iv_bracket(ctx, block):
    """find_implied_volatility with the documented ``lower`` / ``upper`` keywords: brackets reaching up to 4 and
    down to 0, generating volatilities up to 3.9.  STRICT oracle: bisection returns the upper end of a final
    bracket of width <= precision that contains the root, so
        |result - sigma| <= precision + spacing of the floats at sigma + (rounding of the price) / |vega|
    with the last term (model vega at sigma) required to be below precision / 100 (else the element says
    nothing at this strictness and is skipped and counted)."""
    product, call, K = block["product"], block["call"], block["K"]
    lo_b, hi_b = block["bracket"]
    precision = block["precision"]
    U = K if product in ("european", "lookback") else 1
    module = _module(product, call, K)
    cases = [tuple(c) for c in block["cases"]]
    cases = [c for c in cases if monotone_direction(product, call, *c, lo_b, hi_b) != 0]
    if not cases:
        ctx.add("iv_bracket_blocks_without_monotone_case", 1)
        return
    vs = block["v"]
    rows = [(c, v) for c in cases for v in vs]
    lm = torch.tensor([c[0] for c, v in rows], dtype=torch.float64)
    mm = torch.tensor([c[1] for c, v in rows], dtype=torch.float64)
    tt = torch.tensor([c[2] for c, v in rows], dtype=torch.float64)
    vv = torch.tensor([v for c, v in rows], dtype=torch.float64)
    for entry in block.get("entries", ["functional", "functional_bs"]):
        run = _iv_entry(entry, product, call, K, torch.float64)
        price = _price_call(module, product, lm, mm, tt, vv)
        mini = dict(block, entries=[entry])
        ctx.tick(len(rows))
        try:
            with watchdog(100, work=10):
                iv = run(lm, mm, tt, price, precision=precision, lower=lo_b, upper=hi_b)
        except _Hang:
            ctx.violation("find_implied_volatility", "hang", f"did not stop on bracket {block['bracket']}", block=mini)
            continue
        except RuntimeError as e:
            ctx.violation("find_implied_volatility", "raises_with_bracket",
                          f"find_implied_volatility({CLASSES[product]} price, lower={lo_b}, upper={hi_b}, precision={precision}) raised {e} "
                          f"although {math.ceil(math.log2((hi_b - lo_b) / precision))} halvings suffice", observed=str(e), block=mini)
            continue
        nontriv = 0
        for (case, v), x in zip(rows, iv.tolist()):
            s, m, t = case
            vega = abs(U * B.greek("vega", product, mp.exp(mp.mpf(s)), mp.exp(mp.mpf(m)), 1, t, v, call))
            slack = price_tol(product, s, m, t, v, K, float(U * model_price(product, call, s, m, t, v))) / float(vega) if vega > 0 else math.inf
            if slack > precision / 100:
                ctx.add("iv_bracket_elements_skipped_flat_price", 1)
                continue
            nontriv += 1
            tol = precision + math.ulp(v) + slack
            if x != x or abs(x - v) > tol:
                ctx.violation("find_implied_volatility", "iv_bracket_strict",
                              f"find_implied_volatility({CLASSES[product]}(call={call}, strike={K}) price via {entry}, lower={lo_b}, "
                              f"upper={hi_b}, precision={precision}) at (s={s}, m={m}, t={t}): price of volatility {v} gives {x!r} "
                              f"(|diff| {abs(x - v):.3e} > {tol:.3e})", observed=x, expected=v,
                              block=dict(mini, cases=[list(case)], v=[v]))
                break
        ctx.add("distinct_nontrivial", nontriv)
        ctx.outcome(("iv_bracket", entry, product, call, tuple(block["bracket"]), round(float(iv[0]), 7)))


def _price_round(product, s, m, t, v, K, p, eps):
    """Rounding of the implementation's price in the dtype with machine epsilon ``eps``.  price_tol() has the
    factor (1 + (1 + |s| + |m|) / w): the absolute rounding of s and m (and of s - m) divided by w = v sqrt(t)
    moves d.  At s = m = 0 those quotients are exactly 0 and d = +-w/2 carries relative rounding only
    (|delta| <= 4 eps), which moves N(d) by |d| phi(d) |delta| <= 0.25 * 4 eps: the factor is then 1 + 1 = 2,
    whatever w - this is what lets a price resolve volatilities of 1e-5 and below."""
    if s == 0 and m == 0:
        w = v * math.sqrt(t)
        d = min(w / 2, 40.0)
        U = K if product in ("european", "lookback") else 1.0
        return 64 * eps * 2 * (abs(p) + U * 3 * (1 + w * (1 + d)))
    return price_tol(product, s, m, t, v, K, p, eps)


@family
def iv_wide_bracket(ctx, block):
    """find_implied_volatility with the documented lower / upper / precision keywords on brackets whose lower end
    is far below sqrt(eps) of the dtype and whose upper end is far above 1, in float32 and float64, with the
    generating volatilities next to BOTH ends of the caller's bracket (multiples of the lower end, fractions of
    the upper end).  Oracle: bisection returns the upper end of a final bracket of width <= precision containing
    the crossing point of the float price, so
        |result - sigma| <= precision + spacing of the dtype at sigma + (rounding of the price in the dtype) / |vega|,
    vega from the model at sigma.  The last term says where the price resolves the volatility: elements where
    it exceeds an eighth of the bracket (flat price) are skipped and counted; elements where it is below
    100 precisions count as non-trivial."""
    product, call, K = block["product"], block["call"], block["K"]
    dtype = DT[block["dtype"]]
    eps = float(torch.finfo(dtype).eps)
    lo_b, hi_b = block["bracket"]
    precision = block["precision"]
    U = K if product in ("european", "lookback") else 1
    module = _module(product, call, K)
    cases = [tuple(c) for c in block["cases"]]
    cases = [c for c in cases if monotone_direction(product, call, *c, lo_b, hi_b, floor=0.0) != 0]
    if not cases:
        ctx.add("iv_wide_bracket_blocks_without_monotone_case", 1)
        return
    vs = block["v"]
    rows = [(c, v) for c in cases for v in vs]
    lm = torch.tensor([c[0] for c, v in rows], dtype=dtype)
    mm = torch.tensor([c[1] for c, v in rows], dtype=dtype)
    tt = torch.tensor([c[2] for c, v in rows], dtype=dtype)
    vv = torch.tensor([v for c, v in rows], dtype=dtype)
    vfs = vv.to(torch.float64).tolist()          # the volatility that generated the price is the rounded one
    site = "find_implied_volatility"
    for entry in block.get("entries", ["functional", "functional_bs"]):
        run = _iv_entry(entry, product, call, K, dtype)
        price = _price_call(module, product, lm, mm, tt, vv)
        mini = dict(block, entries=[entry])
        ctx.tick(len(rows))
        try:
            with watchdog(100, work=10):
                iv = run(lm, mm, tt, price, precision=precision, lower=lo_b, upper=hi_b)
        except _Hang:
            ctx.violation(site, "hang", f"did not stop on bracket {block['bracket']}", block=mini)
            continue
        except RuntimeError as e:
            ctx.violation(site, "raises_with_bracket",
                          f"find_implied_volatility({CLASSES[product]} price, lower={lo_b}, upper={hi_b}, precision={precision}, "
                          f"{block['dtype']}) raised {e} although {math.ceil(math.log2((hi_b - lo_b) / precision))} halvings suffice",
                          observed=str(e), block=mini)
            continue
        if tuple(iv.shape) != (len(rows),):
            ctx.violation(site, "shape", f"shape {tuple(iv.shape)}", block=mini)
            continue
        nontriv = 0
        for (case, v), vf, x in zip(rows, vfs, iv.to(torch.float64).tolist()):
            s, m, t = case
            key = ("wide_slack", product, call, K, case, vf, eps)
            slack = _PRICE.get(key)
            if slack is None:
                vega = abs(U * B.greek("vega", product, mp.exp(mp.mpf(s)), mp.exp(mp.mpf(m)), 1, t, vf, call))
                pm = float(U * B.price(product, mp.exp(mp.mpf(s)), mp.exp(mp.mpf(m)), 1, t, vf, call))
                slack = _PRICE[key] = (_price_round(product, s, m, t, vf, K, pm, eps) / float(vega)) if vega > 1e-200 else math.inf
            if not (slack <= (hi_b - lo_b) / 8):
                ctx.add("iv_wide_bracket_elements_skipped_flat_price", 1)
                continue
            nontriv += slack <= 100 * precision
            tol = precision + _spacing_below(vf, dtype) + slack
            if x != x or abs(x - vf) > tol:
                near = "lower" if vf - lo_b < hi_b - vf else "upper"
                ctx.violation(site, f"iv_wide_bracket_near_{near}_end",
                              f"find_implied_volatility({CLASSES[product]}(call={call}, strike={K}) price via {entry}, lower={lo_b}, "
                              f"upper={hi_b}, precision={precision}, {block['dtype']}) at (s={s}, m={m}, t={t}): price of volatility "
                              f"{vf!r} gives {x!r} (|diff| {abs(x - vf):.3e} > {tol:.3e} = precision + spacing + price rounding / vega)",
                              observed=x, expected=vf, block=dict(mini, cases=[list(case)], v=[v]))
        ctx.add("distinct_nontrivial", nontriv)
        ctx.add("iv_wide_bracket_elements_resolved_to_100_precisions", nontriv)
        ctx.outcome(("iv_wide", entry, product, call, tuple(block["bracket"]), block["dtype"], precision, round(float(iv[0]), 9)))


IV_BRACKETS = [[0.001, 1.0], [0.3, 1.0], [0.001, 0.5], [0.05, 2.0]]


@family
def iv_history(ctx, block):
    """A history of implied-volatility searches in one process (module-level state, if any, carries over):
    find_implied_volatility with its own bracket / module.implied_volatility with the default bracket, on the
    European call (price strictly increasing in the volatility on every bracket).  Each call is checked on its
    own: the result lies in ITS bracket; when the generating volatility is inside the bracket it is recovered
    (price-space oracle); when it is outside, the search ends at the nearer end of the bracket (what a
    bisection of a monotone function does and what /repo does in a single call: the returned upper bound
    converges onto that end).  The result of a call must also not depend on the calls made before it:
    the same call repeated later in the process must return bitwise the same tensor."""
    product, call, K = "european", True, block["K"]
    dtype = DT[block["dtype"]]
    eps = float(torch.finfo(dtype).eps)
    prec = block.get("precision", 1e-6)
    cases = [tuple(c) for c in block["cases"]]
    lm = torch.tensor([c[0] for c in cases], dtype=dtype)
    tt = torch.tensor([c[2] for c in cases], dtype=dtype)
    module = _module(product, call, K)
    seen = _HISTORY_RESULTS
    for k, (entry, bracket, v) in enumerate(block["calls"]):
        lo_b, hi_b = bracket if entry != "module" else (V_LO, V_HI)
        run = _iv_entry(entry, product, call, K, dtype)
        vv = torch.full_like(lm, v)
        price = _price_call(module, product, lm, lm, tt, vv)
        kw = {} if entry == "module" else {"lower": lo_b, "upper": hi_b}
        site = f"{CLASSES[product]}.implied_volatility" if entry == "module" else "find_implied_volatility"
        mini = dict(block, calls=block["calls"][:k + 1])
        what = f"call {k + 1} of the history {block['calls'][:k + 1]} ({block['dtype']}, K={K})"
        ctx.tick(len(cases), nontrivial=len(cases) if k else 0)
        try:
            with watchdog(100, work=10):
                iv = run(lm, lm, tt, price, precision=prec, **kw)
        except _Hang:
            ctx.violation(site, "hang", what + " did not stop", block=mini)
            continue
        except RuntimeError as e:
            ctx.violation(site, "raises", what + f" raised {e}", observed=str(e), block=mini)
            continue
        got = iv.to(torch.float64).tolist()
        vf = float(vv[0])
        lo_f, hi_f = float(torch.tensor(lo_b, dtype=dtype)), float(torch.tensor(hi_b, dtype=dtype))
        for (s, m, t), x in zip(cases, got):
            bad = None
            if not (lo_f <= x <= hi_f):
                bad = ("outside_own_bracket", f"result {x!r} is outside the bracket [{lo_b}, {hi_b}] of this call")
            elif vf < lo_f or vf > hi_f:
                end = lo_f if vf < lo_f else hi_f
                if abs(x - end) > prec + 4 * eps * abs(end):
                    bad = ("target_outside_bracket", f"the generating volatility {vf} is outside [{lo_b}, {hi_b}]: the search must "
                           f"end at {end}, got {x!r}")
            else:
                ok, _, fv, tolP = _iv_verdict(product, call, K, (s, s, t), vf, x, prec + 4 * eps * hi_f, 1, lo_f, hi_f, eps)
                if not ok:
                    bad = ("iv_in_history", f"price {fv!r} of volatility {vf} gives iv = {x!r}")
            if bad:
                ctx.violation(site, bad[0], what + f" at (s={s}, t={t}): " + bad[1], observed=x, expected=min(max(vf, lo_f), hi_f),
                              block=mini)
                break
        key = (entry, tuple(bracket), v, block["dtype"], K, tuple(cases), prec)
        if key in seen and not torch.equal(seen[key], iv):
            ctx.violation(site, "result_depends_on_history", what + f": the same call returned {seen[key].tolist()} earlier in "
                          f"this process and {iv.tolist()} now", observed=iv, expected=seen[key], block=mini)
        seen.setdefault(key, iv.clone())
    ctx.add("iv_histories", 1)
    ctx.outcome(("hist", tuple(map(str, block["calls"])), block["dtype"]))


_HISTORY_RESULTS = {}


# ------------------------------------------------------------------------------------------------

S_QUICK = [-0.5, -0.05, 0.0, 0.05, 0.5, 1.0]
S_ALPHA = [-1.0, -0.5, -0.2, -0.05, 0.0, 0.05, 0.2, 0.5, 1.0]
T_QUICK = [0.004, 0.08, 1.0]
T_ALPHA = [0.004, 0.08, 1.0, 5.0]
M_QUICK = [["off", 0.0], ["off", 0.05], ["abs", -1e-3]]
M_ALPHA = [["off", 0.0], ["off", 0.05], ["off", 0.5], ["abs", -1e-3], ["abs", 1e-3]]


def run(ctx):
    ctx.rule("bisect_grid: function program x {increasing, decreasing} x {uniform slope, per-element slopes/offsets} x "
             "bracket x bracket representation {python floats, 0-dim tensors, per-element tensors} x all rotations of the "
             "per-element target fractions x precision x shape x dtype (full product); non-trivial = elements whose target is "
             "off-centre or whose function is decreasing.  bisect_abort: precision x max_iter x direction x shape on dyadic "
             "brackets.  bisect_sequence: all ordered pairs (plus a third call) of (program, direction) on shared per-element "
             "bound tensors x shape x dtype x precision.  bisect_subulp: program x direction x shape x bracket x bound/target "
             "dtype x sub-spacing precision x max_iter.  iv_cases: module x call/put x strike x (log-moneyness x maturity x running-max spec) x 12 "
             "volatilities x precision, monotone cases only; non-trivial = (case, volatility) pairs where the price pins the "
             "volatility down to ~precision.  iv_batch: the same cases of one direction in one call.  bisect_own_bracket: locally "
             "monotone program x bracket-tensor layout x coefficient pattern x rotation of the stretches over the bracket elements "
             "x target rotation x precision x dtype; non-trivial = calls with both directions.  iv_wide_bracket: product x "
             "call/put x (dtype, bracket, precision) x case x volatilities next to both bracket ends x entry point; "
             "non-trivial = elements whose price resolves the volatility to 100 precisions")
    ctx.assume("torch.exp/log/tanh/sigmoid are accurate to 2 ulp (enters the rounding slack eta only)")
    ctx.assume("every element of a function handed to bisect is monotone on its bracket; elements of opposite directions in "
               "one call are included (per-element direction, /repo 93b5433)")
    ctx.assume("closed-form prices of models/bs_closed.py (validated by quadrature in C08); strict monotonicity in "
               "volatility is decided by the sign of the model's vega at 31 log-spaced points of [0.001, 1] incl. both ends")
    quick = ctx.quick
    extra_frac = ctx.extra_symbol("fraction", [0.05, 0.1, 0.75, 0.9, 0.999])
    extra_prec = ctx.extra_symbol("precision", [3e-3, 1e-3, 1e-5, 3e-5])
    fractions = FRACTIONS + [extra_frac]
    precisions = [1e-2, 1e-4, 1e-6] + ([] if quick else [extra_prec])
    ctx.alphabet("fractions", fractions)
    ctx.alphabet("programs", sorted(PROGRAMS))
    ctx.alphabet("slopes(per element)", SLOPES)
    shapes = [[], [3], [2, 2]] + ([] if quick else [[5], [2, 3]])
    brackets = BRACKETS + ([] if quick else [[-10.0, -0.5], [0.5, 64.0]])
    if not quick:
        precisions.append(1e-8)
    ctx.alphabet("brackets", brackets)
    ctx.alphabet("precisions", precisions)
    ctx.alphabet("shapes", shapes)
    blocks = []
    for name, spec in PROGRAMS.items():
        for decreasing in (False, True):
            coeffs = [("uniform", sl) for sl in ([0.5, 1.0, 3.0] if name == "affine" else [1.0])] + [("per_element", None)]
            for (coeff, slope), shape, dname in itertools.product(coeffs, shapes, ["float64", "float32"]):
                n = _numel(shape)
                if coeff == "per_element" and n == 1:
                    continue
                kinds = ["float", "tensor0"] + (["tensor"] if n > 1 else [])
                for kind in kinds:
                    brs = [b for b in brackets if not (spec[4] and b[0] <= 0)]
                    if kind == "tensor":
                        bsets = [brs]                       # element i uses bracket i (cyclically)
                    else:
                        bsets = [[b] for b in brs]
                    for bset, precision in itertools.product(bsets, precisions):
                        if quick and dname == "float32" and precision != 1e-4:
                            continue
                        # a precision below the spacing of the bracket dtype's floats is unattainable there
                        # (python-float brackets become float32 tensors): such combinations are not searches
                        # the statement covers
                        bd = torch.float32 if (kind == "float" or dname == "float32") else torch.float64
                        if precision < max(_spacing_below(abs(x), bd) for b in bset for x in b):
                            continue
                        rots = range(len(fractions)) if not quick or (precision == 1e-4 and dname == "float64") else [0, 2]
                        for rot in rots:
                            blocks.append({"fn": name, "decreasing": decreasing, "coeff": coeff, "slope": slope,
                                           "shape": shape, "dtype": dname, "bracket_kind": kind, "brackets": bset,
                                           "fractions": fractions, "rotation": rot, "precision": precision})
    mixed = [dict(b, mixed_direction=True) for b in blocks
             if b["coeff"] == "per_element" and b["dtype"] == "float64" and b["precision"] in (1e-4, 1e-6) and not b["decreasing"]]
    blocks += mixed
    ctx.add("bisect_calls", len(blocks))
    for b in blocks:
        ctx.run("bisect_grid", b)
    # closed range ends (target = f(lower) or f(upper)) on the affine program
    for decreasing, frs, kind in itertools.product((False, True), ([0.0, 1.0, 0.5], [1.0, 0.0, 0.25]), ("float", "tensor0")):
        ctx.run("bisect_grid", {"fn": "affine", "decreasing": decreasing, "coeff": "per_element", "slope": None, "shape": [3],
                                "dtype": "float64", "bracket_kind": kind, "brackets": [[-2.0, 3.0]], "fractions": frs,
                                "rotation": 0, "precision": 1e-6})
    # iteration budget
    for precision, max_iter, decreasing, shape in itertools.product([0.0, 1e-30], [5, 50], [False, True], [[], [3]]):
        ctx.run("bisect_abort", {"bracket": [0.0, 1.0], "precision": precision, "max_iter": max_iter, "decreasing": decreasing,
                                 "shape": shape, "dtype": "float64", "fractions": [0.3, 0.5, 0.8]})
    for k, dk, decreasing, br in itertools.product([1, 5, 20], [-1, 0, 1], [False, True], [[0.0, 1.0], [-2.0, 2.0]]):
        W = br[1] - br[0]
        ctx.run("bisect_abort", {"bracket": br, "precision": W / 2 ** k, "max_iter": max(k + dk, 0), "decreasing": decreasing,
                                 "shape": [3], "dtype": "float64", "fractions": [0.3, 0.5, 0.8]})
    # lower-rank targets under vector / matrix valued functions, float64, tight precisions, both default dtypes
    for name, decreasing, (shape, tshape), bounds, precision, dd in itertools.product(
            ["affine", "exp", "cubic", "tanh"], [False, True], [([3], []), ([2, 3], []), ([2, 3], [3])], ["full", "0-dim"],
            [1e-10, 1e-12], ["float32", "float64"]):
        for rot in ([0] if quick else range(len(fractions))):
            ctx.run("bisect_rank", {"fn": name, "decreasing": decreasing, "shape": shape, "tshape": tshape, "bounds": bounds,
                                    "bracket": [0.1, 4.0], "precision": precision, "default_dtype": dd,
                                    "fractions": [0.3, 0.55, 0.8, 0.1], "rotation": rot})
    # float64 brackets (not integer valued) with float32 / integer targets: the bracket keeps its own dtype and values
    for name, decreasing, (shape, tshape), tdt, precision, dd in itertools.product(
            ["affine", "exp", "cubic"], [False, True], [([3], []), ([3], [3]), ([2, 3], [3])], ["float32", "int64"],
            [1e-6, 1e-10], ["float32", "float64"]):
        ctx.run("bisect_rank", {"fn": name, "decreasing": decreasing, "shape": shape, "tshape": tshape, "bounds": "0-dim",
                                "bracket": [-0.5 if name != "affine" else 0.5, 3.5], "precision": precision, "default_dtype": dd,
                                "target_dtype": tdt, "fractions": [0.3, 0.55, 0.8, 0.1], "rotation": 0})
    # integer-typed brackets: python ints, int64 tensors (0-dim, per element), one integer and one float bound
    for name, decreasing, (shape, tshape), bk, tdt, dd in itertools.product(
            ["affine", "exp", "cubic"], [False, True], [([3], []), ([3], [3]), ([2, 3], [3])],
            ["int", "int_tensor", "int_tensor_full", "int_lower_float_upper"], ["float64", "float32", "int64"], ["float32", "float64"]):
        for precision in ([1e-2, 1e-4] if dd == "float32" and bk != "int_lower_float_upper" else [1e-4, 1e-8]):
            ctx.run("bisect_rank", {"fn": name, "decreasing": decreasing, "shape": shape, "tshape": tshape, "bounds": bk,
                                    "bracket": [1, 8] if name == "affine" else [0, 4], "precision": precision, "default_dtype": dd,
                                    "target_dtype": tdt, "fractions": [0.3, 0.55, 0.8, 0.1], "rotation": 0})
    # functions whose value is computed by autograd, with grad enabled and under an ambient no_grad
    for name, ambient, shape, precision in itertools.product(AUTOGRAD_PROGRAMS, ["enable", "no_grad"], [[], [3]],
                                                             [1e-4, 1e-6] if quick else [1e-2, 1e-4, 1e-6, 1e-8]):
        if ambient == "no_grad" and name in ("poly_grad", "autogreek_delta"):
            continue    # these do not enable grad themselves: not functions of x under no_grad (on /repo either)
        for rot in range(len(fractions) if not quick else 2):
            ctx.run("bisect_autograd", {"program": name, "ambient": ambient, "shape": shape, "precision": precision,
                                        "fractions": fractions, "rotation": rot})
    # consecutive searches sharing the caller's bound tensors
    seq_progs = ["affine", "exp", "logistic", "cubic"] + ([] if quick else ["tanh"])
    kinds = [(f, d) for f in seq_progs for d in (False, True)]
    seq_blocks = []
    for (f1, d1), (f2, d2) in itertools.product(kinds, kinds):
        for shape, dname in itertools.product([[3], [2, 2]], ["float64", "float32"]):
            for precision in ([1e-4] if quick else [1e-2, 1e-4, 1e-6]):
                steps = [{"fn": f1, "decreasing": d1, "coeff": "per_element", "slope": None, "rotation": 0},
                         {"fn": f2, "decreasing": d2, "coeff": "per_element", "slope": None, "rotation": 2}]
                if (f1, d1) == (f2, d2) or not quick:
                    # a third call: back to the first function with yet another target rotation
                    steps.append({"fn": f1, "decreasing": not d1, "coeff": "uniform", "slope": 1.0, "rotation": 3})
                seq_blocks.append({"steps": steps, "shape": shape, "dtype": dname, "brackets": BRACKETS,
                                   "fractions": fractions, "precision": precision})
    for b in seq_blocks:
        ctx.run("bisect_sequence", b)
    # per-element tensor brackets (full shape / one per row / one per column) on functions monotone only on each
    # element's own bracket: every rotation of the program's stretches over the bracket elements
    ctx.alphabet("own-bracket programs", {k: v[5] for k, v in LOCAL_PROGRAMS.items()})
    ctx.alphabet("own-bracket layouts (target shape, bracket shape)", LOCAL_LAYOUTS)
    own = []
    for name, layout, coeff in itertools.product(LOCAL_PROGRAMS, LOCAL_LAYOUTS, ["plain", "per_element", "per_element_signs"]):
        if quick and layout in ("col23", "row23") and coeff == "per_element":
            continue
        for brot, (dname, precision) in itertools.product(range(4), [("float64", 1e-6), ("float32", 1e-4)] if quick else
                                                          [("float64", 1e-4), ("float64", 1e-6), ("float64", 1e-8), ("float32", 1e-4)]):
            for rot in ([brot % 2] if quick else range(len(fractions))):
                own.append({"fn": name, "layout": layout, "coeff": coeff, "bracket_rotation": brot, "rotation": rot,
                            "fractions": fractions, "precision": precision, "dtype": dname})
    for b in own:
        ctx.run("bisect_own_bracket", b)
    # precision finer than the floats of the bound dtype around the root: cannot converge
    sub = []
    for decreasing, slope, shape in itertools.product([False, True], [1.0, 0.5, 2.0], [[], [3]]):
        # exact arithmetic (power-of-two slope): float32 bounds, float64 targets whose roots float32 cannot represent
        for bracket, precision in [([0.0, 1.0], 1e-9), ([-2.0, 3.0], 1e-9), ([990.0, 1010.0], 1e-6), ([0.01, 10.0], 1e-8)]:
            for max_iter in (64, 200):
                sub.append({"fn": "affine", "decreasing": decreasing, "slope": slope, "shape": shape, "bracket": bracket,
                            "bound_dtype": "float32", "target_dtype": "float64", "fractions": [0.3, 0.55, 0.8],
                            "precision": precision, "max_iter": max_iter})
    for name, decreasing, shape in itertools.product(["affine", "exp", "logistic", "cubic", "tanh"], [False, True], [[], [3]]):
        for bd, precision, bracket in [("float32", 1e-9, [-2.0, 3.0]), ("float32", 1e-9, [0.25, 1.0]),
                                       ("float64", 1e-18, [-2.0, 3.0]), ("float64", 1e-18, [0.25, 1.0])]:
            sub.append({"fn": name, "decreasing": decreasing, "slope": 3.0 if name == "affine" else 1.0, "shape": shape,
                        "bracket": bracket, "bound_dtype": bd, "target_dtype": bd, "fractions": [0.3, 0.55, 0.8],
                        "precision": precision, "max_iter": 64 if bd == "float32" else 200})
    ctx.add("subulp_searches", len(sub))
    for b in sub:
        ctx.run("bisect_subulp", b)
    # implied volatility
    s_alpha = S_QUICK if quick else S_ALPHA
    t_alpha = T_QUICK if quick else T_ALPHA
    m_alpha = M_QUICK if quick else M_ALPHA
    ks = [1.0, 1.3] if quick else [0.1, 1.0, 1.3, 2.5, 10.0]
    ctx.alphabet("iv log_moneyness", s_alpha)
    ctx.alphabet("iv time_to_maturity", t_alpha)
    ctx.alphabet("iv running max spec", m_alpha)
    ctx.alphabet("iv strikes", ks)
    ctx.alphabet("iv volatilities", V_GRID)
    grid = {"s": s_alpha, "t": t_alpha, "m": m_alpha}
    ivb, ivbatch = [], []
    for product in B.PRODUCTS:
        for call in ([True, False] if product in ("european", "european_binary") else [True]):
            for K in ks:
                for precision in ([None] if quick else [None, 1e-4, 1e-9]):
                    ivb.append({"product": product, "call": call, "K": K, "grid": grid, "precision": precision})
                if K in (1.0, 1.3):
                    for direction in (1, -1):
                        ivbatch.append({"product": product, "call": call, "K": K, "grid": grid, "direction": direction})
    # the tighter / looser precisions on one strike in the quick tier
    if quick:
        for product in B.PRODUCTS:
            ivb.append({"product": product, "call": True, "K": 1.3, "grid": {"s": [-0.05, 0.05], "t": [0.08, 1.0], "m": m_alpha[:2]},
                        "precision": 1e-9})
    # sub-spacing precision through every implied-volatility entry point
    sub_cases = [[-0.05, -0.05, 0.5], [0.05, 0.05, 1.0]] if quick else [[-0.2, -0.2, 0.08], [-0.05, -0.05, 0.5], [0.05, 0.05, 1.0], [0.0, 0.05, 5.0]]
    for product in B.PRODUCTS:
        for call in ([True, False] if product in ("european", "european_binary") else [True]):
            for dname, precisions_ in (("float32", [1e-12, 1e-9]), ("float64", [1e-20, 1e-18])):
                for precision in precisions_:
                    cs = [c if product in NEEDS_MAX else [c[0], c[0], c[2]] for c in sub_cases]
                    cs = [c for c in cs if not (product == "american_binary" and c[1] >= 0)]
                    ctx.run("iv_subulp", {"product": product, "call": call, "K": 1.3, "dtype": dname, "precision": precision,
                                          "cases": cs, "v": [0.2, 0.35, 0.7]})
    # brackets given by keyword, up to volatility 4 and down to 0, strict oracle
    ctx.alphabet("iv brackets (keywords)", [[0.001, 4.0], [0.0, 1.0], [0.0, 4.0]])
    for product in B.PRODUCTS:
        for call in ([True, False] if product in ("european", "european_binary") else [True]):
            if product in NEEDS_MAX:
                cs = [[-0.2, -0.1, 0.25], [-0.1, -0.05, 0.08]]
            elif product == "european_binary":
                cs = [[0.1, 0.1, 0.25], [0.3, 0.3, 0.08]] if call else [[-0.1, -0.1, 0.25], [-0.3, -0.3, 0.08]]
            else:
                cs = [[-0.1, -0.1, 0.25], [0.0, 0.0, 0.08], [0.1, 0.1, 0.25]]
            for bracket, vs_ in (([0.001, 4.0], [0.3, 1.2, 2.5, 3.9]), ([0.0, 1.0], [0.2, 0.7]), ([0.0, 4.0], [0.3, 1.2, 2.5, 3.9])):
                for precision in ([1e-6] if quick else [1e-4, 1e-6, 1e-8]):
                    ctx.run("iv_bracket", {"product": product, "call": call, "K": 1.3, "cases": cs, "v": vs_, "bracket": bracket,
                                           "precision": precision})
    # wide brackets by keyword (lower end far below sqrt(eps), upper end far above 1), generating volatilities next
    # to both ends, float32 and float64
    wide = [("float64", [1e-5, 8.0], [1e-6, 1e-9]), ("float64", [1e-9, 8.0], [1e-10]), ("float64", [1e-7, 64.0], [1e-8]),
            ("float32", [1e-5, 8.0], [1e-6, 1e-5]), ("float32", [1e-6, 64.0], [1e-5])]
    ctx.alphabet("iv wide brackets (dtype, bracket, precisions)", wide)
    ctx.alphabet("iv wide bracket volatilities", "lower end x (1.5, 3, 10, 30), 0.2, upper end x (0.75, 0.999)")
    for product in B.PRODUCTS:
        for call in ([True, False] if product in ("european", "european_binary") else [True]):
            if product in NEEDS_MAX:
                cs = [[0.0, 0.0, 4.0], [0.0, 0.0, 0.0625], [-0.1, -0.05, 0.0625], [-0.1, -0.05, 0.004]]
            else:
                cs = [[0.0, 0.0, 4.0], [0.0, 0.0, 0.0625], [-0.1, -0.1, 0.004], [0.0, 0.0, 0.004], [0.1, 0.1, 0.004]]
            for dname, bracket, precs in wide:
                vs_ = [bracket[0] * f for f in (1.5, 3.0, 10.0, 30.0)] + [0.2] + [bracket[1] * f for f in (0.75, 0.999)]
                for precision in (precs[:1] if quick else precs):
                    ctx.run("iv_wide_bracket", {"product": product, "call": call, "K": 1.3, "dtype": dname, "cases": cs, "v": vs_,
                                                "bracket": bracket, "precision": precision})
    # one scalar float64 price against vector log-moneyness / maturity
    for product in B.PRODUCTS:
        for call in ([True, False] if product in ("european", "european_binary") else [True]):
            if product in NEEDS_MAX:
                cs = [[-0.2, -0.1, 0.5], [-0.1, -0.05, 1.0], [-0.05, -0.02, 0.5]]
            elif product == "european_binary":
                cs = [[0.05, 0.05, 0.5], [0.1, 0.1, 1.0], [0.2, 0.2, 0.5]] if call else [[-0.05, -0.05, 0.5], [-0.1, -0.1, 1.0], [-0.2, -0.2, 0.5]]
            else:
                cs = [[-0.1, -0.1, 0.5], [0.0, 0.0, 1.0], [0.1, 0.1, 0.5]]
            for precision, dd in itertools.product([1e-10, 1e-12], ["float32", "float64"]):
                ctx.run("iv_scalar_price", {"product": product, "call": call, "K": 1.3, "cases": cs, "v": 0.3,
                                            "precision": precision, "default_dtype": dd})
    # histories of searches with different brackets in one process (every ordered pair of calls is adjacent once)
    ctx.alphabet("iv history brackets", IV_BRACKETS)
    hist_cases = [[-0.1, -0.1, 0.5], [0.0, 0.0, 0.5], [0.1, 0.1, 1.0]]
    calls = [["functional", br, v] for br in IV_BRACKETS for v in (0.2, 0.4, 0.6)] + [["module", [V_LO, V_HI], v] for v in (0.2, 0.6)]
    for dname in ("float64", "float32"):
        for c1, c2 in itertools.product(calls, calls):
            ctx.run("iv_history", {"calls": [c1, c2], "dtype": dname, "K": 1.3, "cases": hist_cases,
                                   "precision": 1e-6 if dname == "float64" else 1e-5})
        if not quick:
            sub = [c for c in calls if c[0] == "functional" and c[2] != 0.4]
            for h in itertools.product(sub, repeat=3):
                ctx.run("iv_history", {"calls": list(h), "dtype": dname, "K": 1.3, "cases": hist_cases,
                                       "precision": 1e-6 if dname == "float64" else 1e-5})
    bound = []
    for product in B.PRODUCTS:
        for call in ([True, False] if product in ("european", "european_binary") else [True]):
            for sigma in ([0.2, 0.7] if quick else [0.05, 0.2, 0.35, 0.7]):
                bound.append({"product": product, "call": call, "K": 1.3, "T": 3 if quick else 4,
                              "A": [1.0, 1.25, 1.5] if quick else [0.875, 1.25, 1.5, 2.75], "dt": 0.25, "sigma": sigma})
    if quick:
        for b in bound:
            ctx.run("iv_bound", b)
    else:
        ctx.run_parallel("iv_bound", bound)
    if quick:
        for b in ivb:
            ctx.run("iv_cases", b)
        for b in ivbatch:
            ctx.run("iv_batch", b)
    else:
        ctx.run_parallel("iv_cases", ivb)
        ctx.run_parallel("iv_batch", ivbatch)

"""C09 - Black-Scholes prices respect the no-arbitrage structure.  Engine: grid (relational).

Family ``relations``: the real ``bs_*_price`` functions are evaluated on the full product grid
log-moneyness x running max x time x volatility x strike (one broadcast call per product) and every
relation of the property is checked on every instance the grid contains:

  parity              C - P = S - K                         (functional and BSEuropeanOption modules)
  binary_sum          binC + binP = 1                       (functional and modules)
  call_bounds         max(S - K, 0) <= C <= S
  unit_interval       binC, binP, AmBin in [0, 1]
  monotone_spot       every call price non-decreasing in the spot, running max fixed: ALL ordered pairs
                      s_i < s_j (<= m) of the log-moneyness axis
  convex_spot         European and lookback call convex in the spot: all triples (i, i+d, i+2d), every stride d
                      (chord inequality  C_j <= lam C_i + (1-lam) C_k,  lam = (S_k - S_j)/(S_k - S_i))
  monotone_vol/time   European call, lookback call, American binary call non-decreasing in v and in t:
                      ALL ordered pairs of the v resp. t alphabet.  (Not the European binary: N(d2) is not
                      monotone in v - it is excluded by the mathematics, as is its convexity.)
  lookback_dominance  LB >= European call, LB >= max(M - K, 0)   (also at m = +e just above the strike)
  american_dominance  AmBin >= binC;  AmBin == 1 exactly when max_log_moneyness >= 0
  continuity_m0       running maximum crossing the strike: |LB(m=-e) - LB(m=+e)| <= |M+ - M-| (the payoff is
                      1-Lipschitz in M) for e in {1e-6, 1e-9} (and either side vs m = 0);
                      American binary at the barrier from below, s = m = -e:  1 - p <= e (0.8/w + 1)
                      (p'(s) = phi(d2)/w + e^s N(d1) + e^s phi(d1)/w <= 0.8/w + 1 for s <= 0).

Family ``derivative_bound``: the same dominance / range / parity relations on BlackScholes(d).price() with all
arguments omitted, for five derivatives sharing one scripted underlier, after the initial path set and after every
round of ALL re-simulation histories (depth 2, thorough 3) over 5 routes (simulate() of three of the derivatives, the
stock's simulate(), re-registered buffers), evaluated against the CURRENT buffers; incl. options struck at the
money at inception with non-dyadic strikes (0.9, 1.03, 1.05, 1.3; every path starts exactly at the strike, so the
American binary must be exactly 1 everywhere).  Barrier state and running maximum come from exact comparisons on the
buffer values.

``relations`` also decides batch independence: every bs_*_price function is re-evaluated on the grid with an expiry
row (t = 0) and a zero-volatility column appended / prepended; the prices of the original t > 0, v > 0 elements must be
bitwise identical (torch's elementwise kernels are position-independent - the unchanged tree passing is the
evidence), so every relation above also holds inside such mixed batches.
Family ``module_attr_parity``: all histories (depth <= 3, thorough 4) of {flip .call, set .strike, copy.copy,
copy.deepcopy} on BSEuropeanOption / BSEuropeanBinaryOption: each module's price at its CURRENT (call, strike) must be in
parity with the opposite flag at that strike and coincide with the functional form.

``relations`` also decides grad-mode independence: every function evaluated under torch.no_grad() and with
requires_grad inputs must return bitwise the values obtained with autograd enabled and plain inputs (so all relations
hold in every mode); ``derivative_bound`` compares price() under no_grad with the default mode.  Optional diagnostic
outside the claim (VERIF_USER_SUBCLASS=1, default off): worlds whose derivatives are USER SUBCLASSES overriding
moneyness() (fx * spot / strike), priced through BS*.from_derivative.

Argument integrity: after every call in ``relations`` the caller's tensors must be bitwise unchanged (class
mutates_argument_*), and relation ``shared_tensor_reuse`` passes ONE set of same-shape tensors through American binary ->
European call/put -> binary -> lookback -> American binary and compares each value with the one on fresh copies.
Family ``integer_inputs``: integer-dtype time tensors (whole years) with python-number volatility through every function and
module: result dtype of the float arguments, value of the float call to float32 accuracy (torch takes sqrt of an
integer tensor in float32), monotone in t and sigma; integer log-moneyness 0 likewise (known finding on the current
tree: the python volatility is truncated to integer 0).

``derivative_bound`` also walks the per-step accessors of the lookback and American binary derivative after every
round: for every step index 0..T-1 and the negative aliases -2..-T (max_moneyness(-1) raises IndexError on the reference
tree and is left out) the triple (log_moneyness(i), max_log_moneyness(i), time_to_maturity(i)) must be column i mod T
of the whole-path accessors, running max >= current, and the module fed with the triple must satisfy the range /
== 1-after-hit / locked-in-floor relations for that step.

Slack.  Each computed price carries a rounding error of at most tol = 32 eps(dtype) scale with
  scale_eu = S + K,  scale_bin = 1 + e^s,  scale_lb = (S + K + M)(1 + w)^2,  w = v sqrt(t)
(derivation in mc/checks/c07.py; C07 confirms the implementation stays within it against the exact
expectation on the same parameter box).  A relation that holds for the exact prices therefore holds for the
computed ones up to the *sum of the tol of the prices it involves*; that sum is the only slack used, for
equalities and one-sidedly for inequalities.  AmBin == 1 for m >= 0 is demanded bitwise.
"""
from __future__ import annotations

import itertools
import math

import torch

#: Optional diagnostic OUTSIDE the claim (default off): worlds built on a USER SUBCLASS that overrides a library method
#: (FX* options overriding moneyness()).  C09 quantifies over the library's own derivatives.
USER_SUBCLASS_WORLDS = __import__("os").environ.get("VERIF_USER_SUBCLASS") == "1"

FAMILIES = {}


def family(fn):
    FAMILIES[fn.__name__] = fn
    return fn


DT = {"float32": torch.float32, "float64": torch.float64}
C_TOL = 32
F64 = torch.float64
ALL_RELS = ("parity", "binary_sum", "call_bounds", "unit_interval", "monotone_spot", "convex_spot",
            "monotone_vol", "monotone_time", "lookback_dominance", "american_dominance", "continuity_m0",
            "batch_independence", "grad_mode_independence", "shared_tensor_reuse")


def _axis(spec):
    if isinstance(spec, dict):
        n = spec["n"]
        return [spec["lo"] + (spec["hi"] - spec["lo"]) * i / (n - 1) for i in range(n)]
    return list(spec)


class Grid:
    """Tensors of the five axes, shaped for broadcasting as (S, M, T, V, K)."""

    def __init__(self, block):
        self.dtype = DT[block["dtype"]]
        self.s = _axis(block["s"])
        self.m = list(block["m"])
        self.t = list(block["t"])
        self.v = list(block["v"])
        self.K = list(block["K"])
        d = self.dtype
        self.s5 = torch.tensor(self.s, dtype=d).view(-1, 1, 1, 1, 1)
        self.m5 = torch.tensor(self.m, dtype=d).view(1, -1, 1, 1, 1) if self.m else None
        self.t5 = torch.tensor(self.t, dtype=d).view(1, 1, -1, 1, 1)
        self.v5 = torch.tensor(self.v, dtype=d).view(1, 1, 1, -1, 1)
        self.K5 = torch.tensor(self.K, dtype=d).view(1, 1, 1, 1, -1)
        self.eps = torch.finfo(d).eps
        # exact values of the inputs actually fed, in float64, for tolerances and reference quantities
        self.S64 = self.s5.to(F64)
        self.M64 = None if self.m5 is None else self.m5.to(F64)
        self.T64, self.V64, self.K64 = self.t5.to(F64), self.v5.to(F64), self.K5.to(F64)
        self.w = self.V64 * self.T64.sqrt()

    def tol_eu(self):
        return C_TOL * self.eps * self.K64 * (1 + self.S64.exp())

    def tol_bin(self):
        return C_TOL * self.eps * (1 + self.S64.exp()) * torch.ones_like(self.w)

    def tol_lb(self, M64=None):
        M64 = self.M64 if M64 is None else M64
        return C_TOL * self.eps * self.K64 * (1 + self.S64.exp() + M64.exp()) * (1 + self.w) ** 2


def _expand(x, shape):
    return x.to(F64).expand(shape)


def _first(mask):
    idx = mask.nonzero()
    return tuple(int(i) for i in idx[0])


def _mini(block, g, rel, si=None, mi=None, ti=None, vi=None, ki=None, m_values=None):
    """Smallest block reproducing one instance: sub-lists of the axes."""
    b = {"dtype": block["dtype"], "rels": [rel]}
    b["s"] = [g.s[i] for i in si] if si is not None else g.s[:1]
    b["m"] = m_values if m_values is not None else ([g.m[i] for i in mi] if mi is not None else [])
    b["t"] = [g.t[i] for i in ti] if ti is not None else g.t[:1]
    b["v"] = [g.v[i] for i in vi] if vi is not None else g.v[:1]
    b["K"] = [g.K[i] for i in ki] if ki is not None else g.K[:1]
    if "eps_m0" in block:
        b["eps_m0"] = block["eps_m0"]
    return b


def _region(g, si=None, mi=None):
    parts = []
    if mi is not None and g.m:
        m = g.m[mi]
        parts.append("max_below_strike" if m < 0 else ("max_at_strike" if m == 0 else "max_above_strike"))
    return ("_" + "_".join(parts)) if parts else ""


@family
def relations(ctx, block):
    import pfhedge.nn.functional as F
    import pfhedge.nn as nn
    g = Grid(block)
    rels = block.get("rels", ALL_RELS)
    nS, nM, nT, nV, nK = len(g.s), len(g.m), len(g.t), len(g.v), len(g.K)
    full = (nS, 1, nT, nV, nK)

    def need(*names):
        return any(r in rels for r in names)

    pristine = {k: (None if getattr(g, k) is None else getattr(g, k).clone()) for k in ("s5", "m5", "t5", "v5", "K5")}
    if not ctx.samples:
        ctx.sample({"family": "relations", "dtype": block["dtype"], "grid": {"s": [g.s[0], g.s[-1], len(g.s)], "m": g.m, "t": g.t, "v": g.v, "K": g.K},
                    "relations": list(rels)})

    def guard(site):
        """Caller tensors must be bitwise unchanged by a call; restores them so that later relations stay meaningful."""
        for k, ref in pristine.items():
            cur = getattr(g, k)
            if ref is None:
                continue
            ctx.tick(1)
            if not torch.equal(cur, ref):
                j = int((cur != ref).flatten().nonzero()[0])
                name = {"s5": "log_moneyness", "m5": "max_log_moneyness", "t5": "time_to_maturity", "v5": "volatility", "K5": "strike"}[k]
                mb = {"dtype": block["dtype"], "rels": list(rels), "s": g.s if k == "s5" else g.s[:3], "m": g.m, "t": g.t[:2], "v": g.v[:2], "K": g.K[:1]}
                ctx.violation(site, f"mutates_argument_{name}", f"{site} overwrote the caller's {name} tensor",
                              observed=float(cur.flatten()[j]), expected=float(ref.flatten()[j]), block=mb)
                cur.copy_(ref)

    # ---- evaluate the real functions once per product on the broadcast grid ----
    eu_c = eu_p = bi_c = bi_p = am = lb = None
    if need("parity", "call_bounds", "monotone_spot", "convex_spot", "monotone_vol", "monotone_time", "lookback_dominance"):
        eu_c = _expand(F.bs_european_price(g.s5, g.t5, g.v5, strike=g.K5, call=True), full)
        guard("bs_european_price")
    if need("parity"):
        eu_p = _expand(F.bs_european_price(g.s5, g.t5, g.v5, strike=g.K5, call=False), full)
        guard("bs_european_price")
    fullb = (nS, 1, nT, nV, 1)
    if need("binary_sum", "unit_interval", "monotone_spot", "american_dominance"):
        bi_c = _expand(F.bs_european_binary_price(g.s5, g.t5, g.v5, call=True), fullb)
        bi_p = _expand(F.bs_european_binary_price(g.s5, g.t5, g.v5, call=False), fullb)
        guard("bs_european_binary_price")
    valid = None
    if nM:
        valid = (g.M64 >= g.S64)                                   # running max >= spot
        if need("unit_interval", "monotone_spot", "monotone_vol", "monotone_time", "american_dominance"):
            am = _expand(F.bs_american_binary_price(g.s5, g.m5, g.t5, g.v5), (nS, nM, nT, nV, 1))
            guard("bs_american_binary_price")
        if need("monotone_spot", "convex_spot", "monotone_vol", "monotone_time", "lookback_dominance"):
            lb = _expand(F.bs_lookback_price(g.s5, g.m5, g.t5, g.v5, g.K5), (nS, nM, nT, nV, nK))
            guard("bs_lookback_price")
    for name, x in (("bs_european_price", eu_c), ("bs_european_price", eu_p), ("bs_european_binary_price", bi_c),
                    ("bs_european_binary_price", bi_p), ("bs_american_binary_price", am), ("bs_lookback_price", lb)):
        if x is None:
            continue
        bad = x.isnan()
        if name in ("bs_american_binary_price", "bs_lookback_price"):
            bad = bad & valid.expand(x.shape)
        ctx.tick(int(x.numel()))
        if bad.any():
            i = _first(bad)
            ctx.violation(name, "nan_in_open_domain", f"{name} is NaN at s={g.s[i[0]]}, t={g.t[i[2]]}, v={g.v[i[3]]}",
                          observed="nan", expected="finite",
                          block=_mini(block, g, rels[0], si=[i[0]], mi=[i[1]] if x.size(1) > 1 else None, ti=[i[2]], vi=[i[3]],
                                      ki=[i[4]] if x.size(4) > 1 else None))
    tol_eu = g.tol_eu().expand(full)
    tol_bin = g.tol_bin().expand(fullb)
    spot = (g.K64 * g.S64.exp()).expand(full)
    spot_minus_strike = (g.K64 * torch.expm1(g.S64)).expand(full)

    def report(rel, site, bad, msg, observed, expected, cls_extra="", has_m=True, has_k=True):
        """bad: bool tensor over (S, M, T, V, K) (M and/or K may be singleton); first failing instance."""
        i = _first(bad)
        mb = _mini(block, g, rel, si=[i[0]], mi=[i[1]] if (has_m and nM) else None, ti=[i[2]], vi=[i[3]],
                   ki=[i[4]] if (has_k and bad.size(4) > 1) else None)
        cls = rel + cls_extra + (_region(g, mi=i[1]) if (has_m and nM) else "")
        ctx.violation(site, cls, msg(i), observed=observed(i), expected=expected(i), block=mb)

    # ---- parity ----
    if "parity" in rels:
        d = eu_c - eu_p - spot_minus_strike
        slack = 2 * tol_eu
        bad = ~(d.abs() <= slack)
        ctx.tick(int(d.numel()), nontrivial=int((eu_p > slack).sum()))
        if bad.any():
            report("parity", "bs_european_price", bad,
                   lambda i: f"C - P != S - K at s={g.s[i[0]]}, t={g.t[i[2]]}, v={g.v[i[3]]}, K={g.K[i[4]]}",
                   lambda i: float((eu_c - eu_p)[i]), lambda i: float(spot_minus_strike[i]), has_m=False)
        # modules (python-float strike)
        for ki, K in enumerate(g.K):
            mc = nn.BSEuropeanOption(call=True, strike=K).price(g.s5, g.t5, g.v5)
            mp_ = nn.BSEuropeanOption(call=False, strike=K).price(g.s5, g.t5, g.v5)
            d = _expand(mc, (nS, 1, nT, nV, 1)) - _expand(mp_, (nS, 1, nT, nV, 1)) - spot_minus_strike[..., ki:ki + 1]
            bad = ~(d.abs() <= 2 * tol_eu[..., ki:ki + 1])
            ctx.tick(int(d.numel()), nontrivial=int(d.numel()))
            if bad.any():
                i = _first(bad)
                ctx.violation("BSEuropeanOption.price", "parity_module", f"module C - P != S - K at s={g.s[i[0]]}, t={g.t[i[2]]}, v={g.v[i[3]]}, K={K}",
                              observed=float(d[i]), expected=0.0, block=_mini(block, g, "parity", si=[i[0]], ti=[i[2]], vi=[i[3]], ki=[ki]))
    guard("BSEuropeanOption.price")
    # ---- binary sum ----
    if "binary_sum" in rels:
        d = bi_c + bi_p - 1
        bad = ~(d.abs() <= 2 * tol_bin)
        ctx.tick(int(d.numel()), nontrivial=int(((bi_c > 0) & (bi_c < 1)).sum()))
        if bad.any():
            report("binary_sum", "bs_european_binary_price", bad,
                   lambda i: f"binC + binP != 1 at s={g.s[i[0]]}, t={g.t[i[2]]}, v={g.v[i[3]]}",
                   lambda i: float((bi_c + bi_p)[i]), lambda i: 1.0, has_m=False, has_k=False)
        for K in g.K[-1:]:
            mc = _expand(nn.BSEuropeanBinaryOption(call=True, strike=K).price(g.s5, g.t5, g.v5), fullb)
            mp_ = _expand(nn.BSEuropeanBinaryOption(call=False, strike=K).price(g.s5, g.t5, g.v5), fullb)
            bad = ~((mc + mp_ - 1).abs() <= 2 * tol_bin)
            ctx.tick(int(mc.numel()), nontrivial=int(mc.numel()))
            if bad.any():
                i = _first(bad)
                ctx.violation("BSEuropeanBinaryOption.price", "binary_sum_module", f"module binC + binP != 1 at s={g.s[i[0]]}, t={g.t[i[2]]}, v={g.v[i[3]]}, strike={K}",
                              observed=float((mc + mp_)[i]), expected=1.0, block=_mini(block, g, "binary_sum", si=[i[0]], ti=[i[2]], vi=[i[3]], ki=[nK - 1]))
    guard("BSEuropeanBinaryOption.price")
    # ---- bounds ----
    if "call_bounds" in rels:
        intrinsic = spot_minus_strike.clamp(min=0)
        lo_bad = ~(eu_c >= intrinsic - tol_eu)
        hi_bad = ~(eu_c <= spot + tol_eu)
        ctx.tick(2 * int(eu_c.numel()), nontrivial=int(((eu_c > intrinsic + tol_eu) & (eu_c < spot - tol_eu)).sum()))
        for bad, nm in ((lo_bad, "below_intrinsic"), (hi_bad, "above_spot")):
            if bad.any():
                report("call_bounds", "bs_european_price", bad,
                       lambda i: f"call {nm}: s={g.s[i[0]]}, t={g.t[i[2]]}, v={g.v[i[3]]}, K={g.K[i[4]]}",
                       lambda i: float(eu_c[i]), lambda i: [float(intrinsic[i]), float(spot[i])], cls_extra="_" + nm, has_m=False)
    if "unit_interval" in rels:
        for name, x, tol in (("bs_european_binary_price", bi_c, tol_bin), ("bs_european_binary_price", bi_p, tol_bin),
                             ("bs_american_binary_price", am, tol_bin)):
            if x is None:
                continue
            ok = (x >= -tol) & (x <= 1 + tol)
            if x.size(1) > 1 or name == "bs_american_binary_price":
                ok = ok | ~valid.expand(x.shape)
            ctx.tick(int(x.numel()), nontrivial=int(((x > 0) & (x < 1)).sum()))
            if (~ok).any():
                report("unit_interval", name, ~ok,
                       lambda i: f"{name} outside [0,1] at s={g.s[i[0]]}, t={g.t[i[2]]}, v={g.v[i[3]]}",
                       lambda i: float(x[i]), lambda i: [0.0, 1.0], has_m=(name == "bs_american_binary_price"), has_k=False)

    # ---- axis relations ----
    def pairs_along(x, tol, axis, rel, site, mask=None, has_m=True, has_k=True):
        """x non-decreasing along ``axis`` for ALL ordered index pairs i < j (values sorted ascending)."""
        n = x.size(axis)
        if n < 2:
            return
        xi = x.unsqueeze(axis + 1)      # index i on axis, j on axis+1 after the swap below
        xj = x.unsqueeze(axis)
        # diff[.., i, j, ..] = x_j - x_i
        diff = xj - xi
        sl = tol.expand(x.shape).unsqueeze(axis + 1) + tol.expand(x.shape).unsqueeze(axis)
        iu = torch.triu(torch.ones(n, n, dtype=torch.bool), diagonal=1)
        shape = [1] * diff.dim()
        shape[axis], shape[axis + 1] = n, n
        upper = iu.view(shape)
        ok = (diff >= -sl) | ~upper
        if mask is not None:
            mk = mask.expand(x.shape)
            ok = ok | ~(mk.unsqueeze(axis + 1) & mk.unsqueeze(axis))
            cnt = (upper & mk.unsqueeze(axis + 1) & mk.unsqueeze(axis))
        else:
            cnt = upper.expand(diff.shape)
        ctx.tick(int(cnt.sum()), nontrivial=int((cnt & (diff.abs() > sl)).sum()))
        ctx.add("pairs", int(cnt.sum()))
        bad = ~ok
        if bad.any():
            idx = _first(bad)
            i_, j_ = idx[axis], idx[axis + 1]
            rest = list(idx[:axis]) + [i_] + list(idx[axis + 2:])
            restj = list(idx[:axis]) + [j_] + list(idx[axis + 2:])
            si, mi, ti, vi, ki = [[r] for r in rest]
            if axis == 0:
                si = [i_, j_]
            elif axis == 2:
                ti = [i_, j_]
            elif axis == 3:
                vi = [i_, j_]
            mb = _mini(block, g, rel, si=si, mi=mi if (has_m and nM) else None, ti=ti, vi=vi, ki=ki if has_k else None)
            axname = {0: "log_moneyness", 2: "time_to_maturity", 3: "volatility"}[axis]
            vals = {0: g.s, 2: g.t, 3: g.v}[axis]
            ctx.violation(site, rel + (_region(g, mi=rest[1]) if (has_m and nM) else ""),
                          f"{site} decreases in {axname}: {vals[i_]} -> {vals[j_]} at s={g.s[rest[0]]}, "
                          f"m={g.m[rest[1]] if (has_m and nM) else None}, t={g.t[rest[2]]}, v={g.v[rest[3]]}, K={g.K[rest[4]] if has_k else None}",
                          observed=[float(x[tuple(rest)]), float(x[tuple(restj)])], expected="non-decreasing", block=mb)

    tol_lb = g.tol_lb().expand((nS, nM, nT, nV, nK)) if nM else None
    tol_am = g.tol_bin().expand((nS, nM, nT, nV, 1)) if nM else None
    if "monotone_spot" in rels:
        pairs_along(eu_c, tol_eu, 0, "monotone_spot", "bs_european_price", has_m=False)
        pairs_along(bi_c, tol_bin, 0, "monotone_spot", "bs_european_binary_price", has_m=False, has_k=False)
        if nM:
            pairs_along(am, tol_am, 0, "monotone_spot", "bs_american_binary_price", mask=valid, has_k=False)
            pairs_along(lb, tol_lb, 0, "monotone_spot", "bs_lookback_price", mask=valid)
    for rel, axis in (("monotone_time", 2), ("monotone_vol", 3)):
        if rel in rels:
            pairs_along(eu_c, tol_eu, axis, rel, "bs_european_price", has_m=False)
            if nM:
                pairs_along(am, tol_am, axis, rel, "bs_american_binary_price", mask=valid, has_k=False)
                pairs_along(lb, tol_lb, axis, rel, "bs_lookback_price", mask=valid)
    if "convex_spot" in rels and nS >= 3:
        for site, x, tol, mask, has_m in (("bs_european_price", eu_c, tol_eu, None, False),
                                          ("bs_lookback_price", lb, tol_lb, valid, True)):
            if x is None:
                continue
            Sx = spot if not has_m else (g.K64 * g.S64.exp()).expand(x.shape)
            tolx = tol.expand(x.shape)
            d = 1
            while 2 * d <= nS - 1:
                a, b, c = x[:-2 * d], x[d:-d], x[2 * d:]
                Sa, Sb, Sc = Sx[:-2 * d], Sx[d:-d], Sx[2 * d:]
                lam = (Sc - Sb) / (Sc - Sa)
                chord = lam * a + (1 - lam) * c
                sl = tolx[:-2 * d] + tolx[d:-d] + 2 * tolx[2 * d:]      # prices + rounding of lam (|c - a| <= scale)
                ok = b <= chord + sl
                cnt = torch.ones_like(ok)
                if mask is not None:
                    mk = mask.expand(x.shape)[2 * d:]                   # m >= largest spot of the triple
                    ok = ok | ~mk
                    cnt = cnt & mk
                ctx.tick(int(cnt.sum()), nontrivial=int((cnt & ((chord - b).abs() > sl)).sum()))
                ctx.add("triples", int(cnt.sum()))
                bad = ~ok
                if bad.any():
                    i = _first(bad)
                    mb = _mini(block, g, "convex_spot", si=[i[0], i[0] + d, i[0] + 2 * d], mi=[i[1]] if has_m else None,
                               ti=[i[2]], vi=[i[3]], ki=[i[4]])
                    ctx.violation(site, "convex_spot" + (_region(g, mi=i[1]) if has_m else ""),
                                  f"{site} not convex in the spot on s=({g.s[i[0]]}, {g.s[i[0] + d]}, {g.s[i[0] + 2 * d]}), "
                                  f"m={g.m[i[1]] if has_m else None}, t={g.t[i[2]]}, v={g.v[i[3]]}, K={g.K[i[4]]}",
                                  observed=float(b[i]), expected=float(chord[i]), block=mb)
                d *= 2
    # ---- dominance ----
    if "lookback_dominance" in rels and nM:
        d1 = lb - eu_c.expand(lb.shape)
        locked = (g.K64 * torch.expm1(g.M64)).clamp(min=0).expand(lb.shape)
        bad1 = ~(d1 >= -(tol_lb + tol_eu.expand(lb.shape))) & valid
        bad2 = ~(lb >= locked - tol_lb) & valid
        nv = int(valid.expand(lb.shape).sum())
        ctx.tick(2 * nv, nontrivial=int(((d1 > tol_lb) & valid).sum()))
        if bad1.any():
            report("lookback_dominance", "bs_lookback_price", bad1,
                   lambda i: f"lookback < European call at s={g.s[i[0]]}, m={g.m[i[1]]}, t={g.t[i[2]]}, v={g.v[i[3]]}, K={g.K[i[4]]}",
                   lambda i: float(lb[i]), lambda i: float(eu_c.expand(lb.shape)[i]), cls_extra="_european")
        if bad2.any():
            report("lookback_dominance", "bs_lookback_price", bad2,
                   lambda i: f"lookback < locked-in payoff max(M-K,0) at s={g.s[i[0]]}, m={g.m[i[1]]}, t={g.t[i[2]]}, v={g.v[i[3]]}, K={g.K[i[4]]}",
                   lambda i: float(lb[i]), lambda i: float(locked[i]), cls_extra="_locked_in")
    if "american_dominance" in rels and nM:
        d1 = am - bi_c.expand(am.shape)
        bad1 = ~(d1 >= -2 * tol_am) & valid
        hit = (g.M64 >= 0).expand(am.shape) & valid
        bad2 = hit & ~(am == 1.0)
        ctx.tick(int(valid.expand(am.shape).sum()) + int(hit.sum()), nontrivial=int(((d1 > tol_am) & valid).sum()) + int(hit.sum()))
        if bad1.any():
            report("american_dominance", "bs_american_binary_price", bad1,
                   lambda i: f"American binary < European binary at s={g.s[i[0]]}, m={g.m[i[1]]}, t={g.t[i[2]]}, v={g.v[i[3]]}",
                   lambda i: float(am[i]), lambda i: float(bi_c.expand(am.shape)[i]), cls_extra="_european", has_k=False)
        if bad2.any():
            report("american_dominance", "bs_american_binary_price", bad2,
                   lambda i: f"American binary != 1 although the barrier has been reached: s={g.s[i[0]]}, m={g.m[i[1]]}, t={g.t[i[2]]}, v={g.v[i[3]]}",
                   lambda i: float(am[i]), lambda i: 1.0, cls_extra="_one_after_hit", has_k=False)
    # ---- a pointwise function must not depend on the rest of the batch ----
    if "batch_independence" in rels:
        d = g.dtype
        zero = torch.zeros(1, dtype=d)
        calls = [("bs_european_price", lambda t5, v5: F.bs_european_price(g.s5, t5, v5, strike=g.K5, call=True), False),
                 ("bs_european_price", lambda t5, v5: F.bs_european_price(g.s5, t5, v5, strike=g.K5, call=False), False),
                 ("bs_european_binary_price", lambda t5, v5: F.bs_european_binary_price(g.s5, t5, v5, call=True), False),
                 ("bs_european_binary_price", lambda t5, v5: F.bs_european_binary_price(g.s5, t5, v5, call=False), False)]
        if nM:
            calls += [("bs_american_binary_price", lambda t5, v5: F.bs_american_binary_price(g.s5, g.m5, t5, v5), True),
                      ("bs_lookback_price", lambda t5, v5: F.bs_lookback_price(g.s5, g.m5, t5, v5, g.K5), True)]
        tflat, vflat = g.t5.flatten(), g.v5.flatten()
        for site, fn, has_m in calls:
            plain = fn(g.t5, g.v5)
            shape = torch.broadcast_shapes(plain.shape, (nS, 1, nT, nV, 1))
            plain = plain.expand(shape)
            for where in ("appended", "prepended"):
                # the grid plus an expiry row (t = 0) and a zero-volatility column; log-moneyness 0 is on the grid
                if where == "appended":
                    tx, vx = torch.cat([tflat, zero]), torch.cat([vflat, zero])
                    sl = (slice(None), slice(None), slice(0, nT), slice(0, nV))
                else:
                    tx, vx = torch.cat([zero, tflat]), torch.cat([zero, vflat])
                    sl = (slice(None), slice(None), slice(1, nT + 1), slice(1, nV + 1))
                mixed = fn(tx.view(1, 1, -1, 1, 1), vx.view(1, 1, 1, -1, 1))
                mixed = mixed.expand(torch.broadcast_shapes(mixed.shape, (nS, 1, nT + 1, nV + 1, 1)))[sl]
                same = (mixed == plain) | (mixed.isnan() & plain.isnan())
                ctx.tick(int(same.numel()), nontrivial=int(same.numel()))
                if not bool(same.all()):
                    i = _first(~same)
                    atm = "_at_the_money" if g.s[i[0]] == 0 else ""
                    ctx.violation(site, f"batch_independence{atm}",
                                  f"{site} at s={g.s[i[0]]}, t={g.t[i[2]]}, v={g.v[i[3]]} changes when an expiry row (t=0) and a "
                                  f"zero-volatility column are {where} to the batch",
                                  observed=float(mixed[i]), expected=float(plain[i]),
                                  block=_mini(block, g, "batch_independence", si=[i[0]], mi=[i[1]] if (has_m and nM and same.size(1) > 1) else (list(range(nM))[:1] if has_m else None),
                                              ti=[i[2]], vi=[i[3]], ki=[i[4]] if same.size(4) > 1 else None))
    guard("bs_*_price (mixed batch)")
    # ---- the ambient autograd mode and differentiable inputs must not change the values ----
    if "grad_mode_independence" in rels:
        def variants(with_grad):
            def rq(x):
                return x.clone().requires_grad_() if with_grad else x
            s5, t5, v5 = rq(g.s5), rq(g.t5), rq(g.v5)
            out = [("bs_european_price", F.bs_european_price(s5, t5, v5, strike=g.K5, call=True), False),
                   ("bs_european_price", F.bs_european_price(s5, t5, v5, strike=g.K5, call=False), False),
                   ("bs_european_binary_price", F.bs_european_binary_price(s5, t5, v5, call=True), False),
                   ("bs_european_binary_price", F.bs_european_binary_price(s5, t5, v5, call=False), False)]
            if nM:
                m5 = rq(g.m5)
                out += [("bs_american_binary_price", F.bs_american_binary_price(s5, m5, t5, v5), True),
                        ("bs_lookback_price", F.bs_lookback_price(s5, m5, t5, v5, g.K5), True)]
            return [(a, b.detach(), c) for a, b, c in out]
        with torch.enable_grad():
            ref = variants(False)
            modes = {"requires_grad_inputs": variants(True)}
        with torch.no_grad():
            modes["no_grad"] = variants(False)
        for mode, outs_ in modes.items():
            for (site, a, has_m), (_, b, _) in zip(ref, outs_):
                same = (a == b) | (a.isnan() & b.isnan())
                ctx.tick(int(same.numel()), nontrivial=int(same.numel()))
                if not bool(same.all()):
                    i = _first(~same)
                    i = tuple(i) + (0,) * (5 - len(i))
                    ctx.violation(site, f"grad_mode_independence_{mode}",
                                  f"{site} at s={g.s[i[0]]}, t={g.t[i[2]]}, v={g.v[i[3]]} returns a different value under {mode} than with "
                                  f"autograd enabled and plain inputs", observed=float(b[tuple(i[:b.dim()])]), expected=float(a[tuple(i[:a.dim()])]),
                                  block=_mini(block, g, "grad_mode_independence", si=[i[0]], mi=[i[1]] if (has_m and nM and same.size(1) > 1) else (list(range(nM))[:1] if has_m else None),
                                              ti=[i[2]], vi=[i[3]], ki=[i[4]] if same.size(4) > 1 else None))
    guard("bs_*_price (grad modes)")
    # ---- ONE tensor object reused across the calls of a relation (American binary first) ----
    if "shared_tensor_reuse" in rels and nM:
        # same-shape contiguous tensors (no broadcasting): what a caller holding one path tensor passes around
        shp = (nS, nM, nT, nV, 1)
        P0 = {k: pristine[k].expand(shp).reshape(-1).clone() for k in ("s5", "m5", "t5", "v5")}
        X, Mx_, T_, V_ = (P0[k].clone() for k in ("s5", "m5", "t5", "v5"))
        K0 = g.K[-1]

        def fr():
            return tuple(P0[k].clone() for k in ("s5", "m5", "t5", "v5"))

        order = [("bs_american_binary_price", lambda: F.bs_american_binary_price(X, Mx_, T_, V_)),
                 ("bs_european_price", lambda: F.bs_european_price(X, T_, V_, strike=K0, call=True)),
                 ("bs_european_price", lambda: F.bs_european_price(X, T_, V_, strike=K0, call=False)),
                 ("bs_european_binary_price", lambda: F.bs_european_binary_price(X, T_, V_, call=True)),
                 ("bs_lookback_price", lambda: F.bs_lookback_price(X, Mx_, T_, V_, K0)),
                 ("bs_american_binary_price", lambda: F.bs_american_binary_price(X, Mx_, T_, V_))]
        fresh = [("", lambda: (lambda a_, b_, c_, d_: F.bs_american_binary_price(a_, b_, c_, d_))(*fr())),
                 ("", lambda: (lambda a_, b_, c_, d_: F.bs_european_price(a_, c_, d_, strike=K0, call=True))(*fr())),
                 ("", lambda: (lambda a_, b_, c_, d_: F.bs_european_price(a_, c_, d_, strike=K0, call=False))(*fr())),
                 ("", lambda: (lambda a_, b_, c_, d_: F.bs_european_binary_price(a_, c_, d_, call=True))(*fr())),
                 ("", lambda: (lambda a_, b_, c_, d_: F.bs_lookback_price(a_, b_, c_, d_, K0))(*fr())),
                 ("", lambda: (lambda a_, b_, c_, d_: F.bs_american_binary_price(a_, b_, c_, d_))(*fr()))]
        prev = "nothing"
        for (site, shared_call), (_, fresh_call) in zip(order, fresh):
            before = {"s5": X.clone(), "m5": Mx_.clone(), "t5": T_.clone(), "v5": V_.clone()}
            a, b = shared_call(), fresh_call()
            same = (a == b) | (a.isnan() & b.isnan())
            ctx.tick(int(same.numel()), nontrivial=int(same.numel()))
            for nm, cur, k in (("log_moneyness", X, "s5"), ("max_log_moneyness", Mx_, "m5"), ("time_to_maturity", T_, "t5"), ("volatility", V_, "v5")):
                ctx.tick(1)
                if not torch.equal(cur, before[k]):
                    j = int((cur != before[k]).nonzero()[0])
                    i = tuple(int(x) for x in torch.unravel_index(torch.tensor(j), shp))
                    ctx.violation(site, f"mutates_argument_{nm}", f"{site} overwrote the caller's {nm} tensor (same-shape tensors, no broadcasting): "
                                  f"entry s={g.s[i[0]]}, m={g.m[i[1]]}, t={g.t[i[2]]}, v={g.v[i[3]]}",
                                  observed=float(cur[j]), expected=float(P0[k][j]),
                                  block={"dtype": block["dtype"], "rels": ["shared_tensor_reuse"], "s": [g.s[i[0]]], "m": [g.m[i[1]]], "t": [g.t[i[2]]],
                                         "v": [g.v[i[3]]], "K": g.K[-1:]})
            if not bool(same.all()):
                j = int((~same).nonzero()[0])
                i = tuple(int(x) for x in torch.unravel_index(torch.tensor(j), shp))
                ctx.violation(site, "shared_tensor_reuse_value_changed",
                              f"{site} on tensors already used by the previous calls (last: {prev}) differs from its value on fresh copies: "
                              f"s={g.s[i[0]]}, m={g.m[i[1]]}, t={g.t[i[2]]}, v={g.v[i[3]]} - an earlier call changed the caller's tensor",
                              observed=float(a[j]), expected=float(b[j]),
                              block={"dtype": block["dtype"], "rels": ["shared_tensor_reuse"], "s": [g.s[i[0]]], "m": [g.m[i[1]]], "t": [g.t[i[2]]],
                                     "v": [g.v[i[3]]], "K": g.K[-1:]})
            prev = site
    # ---- continuity where the running maximum crosses the strike ----
    if "continuity_m0" in rels:
        d = g.dtype
        for e in block.get("eps_m0", [1e-6, 1e-9]):
            ms = torch.tensor([-e, 0.0, e], dtype=d).view(1, 3, 1, 1, 1)
            ms64 = ms.to(F64)
            below = [i for i, s in enumerate(g.s) if float(torch.tensor(s, dtype=d)) <= float(ms64[0, 0, 0, 0, 0])]
            if below:
                sb = g.s5[below]
                lbm = _expand(F.bs_lookback_price(sb, ms, g.t5, g.v5, g.K5), (len(below), 3, nT, nV, nK))
                tolm = (C_TOL * g.eps * g.K64 * (1 + sb.to(F64).exp() + ms64.exp()) * (1 + g.w) ** 2).expand(lbm.shape)
                Mval = (g.K64 * ms64.exp()).expand(lbm.shape)
                for (a, b) in ((0, 2), (0, 1), (1, 2)):
                    gap = (lbm[:, b] - lbm[:, a]).abs()
                    lip = (Mval[:, b] - Mval[:, a]).abs() + tolm[:, a] + tolm[:, b]
                    bad = ~(gap <= lip)
                    ctx.tick(int(gap.numel()), nontrivial=int(gap.numel()))
                    if bad.any():
                        i = _first(bad)
                        mb = _mini(block, g, "continuity_m0", si=[below[i[0]]], ti=[i[1]], vi=[i[2]], ki=[i[3]], m_values=[])
                        mb["eps_m0"] = [e]
                        ctx.violation("bs_lookback_price", f"continuity_m0_eps{e:g}",
                                      f"lookback price jumps where the running max crosses the strike: m={float(ms64.flatten()[a])} vs "
                                      f"{float(ms64.flatten()[b])} at s={g.s[below[i[0]]]}, t={g.t[i[1]]}, v={g.v[i[2]]}, K={g.K[i[3]]}",
                                      observed=[float(lbm[:, a][i]), float(lbm[:, b][i])], expected=f"|difference| <= {float(lip[i])}", block=mb)
                # just past the strike the locked-in payoff M - K > 0 is already a floor
                locked = (g.K64 * torch.expm1(ms64)).clamp(min=0).expand(lbm.shape)
                bad = ~(lbm >= locked - tolm)
                ctx.tick(int(lbm.numel()), nontrivial=int(lbm[:, 2].numel()))
                if bad.any():
                    i = _first(bad)
                    mb = _mini(block, g, "continuity_m0", si=[below[i[0]]], ti=[i[2]], vi=[i[3]], ki=[i[4]], m_values=[])
                    mb["eps_m0"] = [e]
                    ctx.violation("bs_lookback_price", f"locked_in_floor_just_above_strike_eps{e:g}",
                                  f"lookback price below the locked-in payoff for m={float(ms64.flatten()[i[1]])}: s={g.s[below[i[0]]]}, "
                                  f"t={g.t[i[2]]}, v={g.v[i[3]]}, K={g.K[i[4]]}",
                                  observed=float(lbm[i]), expected=f">= {float(locked[i])}", block=mb)
            # American binary just below the barrier with the spot at its maximum
            sm = torch.tensor([-e], dtype=d).view(1, 1, 1, 1, 1)
            p = _expand(F.bs_american_binary_price(sm, sm, g.t5, g.v5), (1, 1, nT, nV, 1))
            e64 = -float(sm.to(F64).flatten()[0])
            bound = e64 * (0.8 / g.w + 1) + C_TOL * g.eps * 2
            bad = ~((1 - p).abs() <= bound.expand(p.shape))
            ctx.tick(int(p.numel()), nontrivial=int(p.numel()))
            if bad.any():
                i = _first(bad)
                mb = _mini(block, g, "continuity_m0", ti=[i[2]], vi=[i[3]], m_values=[])
                mb["eps_m0"] = [e]
                ctx.violation("bs_american_binary_price", f"continuity_m0_eps{e:g}",
                              f"American binary at s=m=-{e:g} is {float(p[i])}, not within {float(bound.expand(p.shape)[i])} of 1 (t={g.t[i[2]]}, v={g.v[i[3]]})",
                              observed=float(p[i]), expected=1.0, block=mb)
    for x in (eu_c, am, lb):
        if x is not None:
            flat = x.flatten()
            for val in flat[:: max(1, flat.numel() // 40)].tolist():
                ctx.outcome(round(val, 10))
    if len(ctx.samples) < 3 and eu_c is not None and eu_p is not None:
        i = (nS // 3, 0, nT // 2, nV // 2, nK - 1)
        ctx.sample({"family": "relations", "dtype": block["dtype"], "s": g.s[i[0]], "t": g.t[i[2]], "v": g.v[i[3]], "K": g.K[i[4]],
                    "call": float(eu_c[i]), "put": float(eu_p[i]), "S-K": float(spot_minus_strike[i]),
                    "parity_residual": float((eu_c - eu_p - spot_minus_strike)[i]), "slack": float(2 * tol_eu[i])})


# ----------------------------------------------------------------------------
# derivative-bound module prices (arguments omitted), incl. re-simulation histories
# ----------------------------------------------------------------------------

ROUTES = ("sim_via_lookback", "sim_via_american_binary", "sim_via_european", "stock_simulate", "set_buffers")
_BS = {"european": "BSEuropeanOption", "european_binary": "BSEuropeanBinaryOption",
       "american_binary": "BSAmericanBinaryOption", "lookback": "BSLookbackOption"}


def _fx_option(kind, stock, fx, **kw):
    """User subclass of the pfhedge option class whose moneyness() is fx * spot / strike."""
    import pfhedge.instruments as I
    base = {"european": I.EuropeanOption, "lookback": I.LookbackOption, "european_binary": I.EuropeanBinaryOption,
            "american_binary": I.AmericanBinaryOption}[kind]

    def moneyness(self, time_step=None, log=False):
        index = ... if time_step is None else [time_step]
        out = self.fx * self.underlier.spot[..., index] / self.strike
        return out.log() if log else out

    return type("FX" + base.__name__, (base,), {"fx": fx, "moneyness": moneyness})(stock, **kw)


@family
def derivative_bound(ctx, block):
    """European call/put, European binary call, American binary and lookback on ONE scripted underlier, same strike,
    each priced through BlackScholes(d).price() with all arguments omitted.  After the initial path set and after every
    re-simulation round (new paths of the same shape via another derivative's simulate(), the stock's simulate(), or
    re-registered buffers) the relations are evaluated against the CURRENT buffers (running maximum and barrier state
    taken from the buffer values by exact comparison): lookback >= European call and >= max(M - K, 0); American binary
    in [0, 1], >= European binary call, == 1 (bitwise) wherever the running maximum has reached the strike; C - P = S - K.
    block: A, first (optional pinned first symbol), T, dt, sigma, strike, dtype, histories."""
    import pfhedge.nn as nn
    from mc.core import market
    from mc.core.explore import all_paths
    from mc.core.runner import HarnessError
    dtype = DT[block["dtype"]]
    eps = torch.finfo(dtype).eps
    K, T, dt, sigma = block["strike"], block["T"], block["dt"], block["sigma"]
    if float(torch.tensor(K, dtype=dtype)) != K:
        raise HarnessError(f"strike {K} not representable in {block['dtype']}")
    base = all_paths(block["A"], T, dtype=dtype, first=block.get("first"))
    N = base.size(0)
    if block.get("first") is None:
        contents = [base, base.flip(0), base.roll(5, 0).flip(-1), base.flip(-1), base.roll(11, 0)]
    else:   # keep the first column pinned to the strike: permute paths only
        contents = [base, base.flip(0), base.roll(2, 0), base.roll(4, 0), base.roll(7, 0)]
    kinds = {"european_call": ("european", True), "european_put": ("european", False), "binary_call": ("european_binary", True),
             "american_binary": ("american_binary", True), "lookback": ("lookback", True)}
    if block.get("fx") is not None and not USER_SUBCLASS_WORLDS:
        return          # user-subclass worlds are an optional diagnostic (VERIF_USER_SUBCLASS=1)
    for hist in block["histories"]:
        stock = market.primary("brownian", dtype=dtype, sigma=sigma, dt=dt)
        holder = {"next": None}
        market.ScriptedSimulate(stock, [lambda n, th, init: {"spot": holder["next"]}])
        market.set_buffers(stock, spot=contents[0])
        fx = block.get("fx")
        if fx is None:
            derivs = {nm: market.derivative(kind, stock, T=T, strike=K, call=c) for nm, (kind, c) in kinds.items()}
            mods = {nm: nn.BlackScholes(d) for nm, d in derivs.items()}
        else:
            # USER SUBCLASSES overriding moneyness() (the documented single definition point): moneyness = fx*spot/strike
            derivs = {nm: _fx_option(kind, stock, fx, strike=K, call=c, maturity=(T - 1) * dt) for nm, (kind, c) in kinds.items()}
            mods = {nm: getattr(nn, _BS[kinds[nm][0]]).from_derivative(d) for nm, d in derivs.items()}
        fxv = 1.0 if fx is None else fx

        def check_round(rnd):
            route = "initial" if rnd == 0 else hist[rnd - 1]
            mb = dict(block, histories=[hist[:rnd]])
            live = slice(0, T - 1)
            spot = stock.spot.to(F64)
            P = {nm: m.price().to(F64)[:, live] for nm, m in mods.items()}
            with torch.no_grad():
                Pn = {nm: m.price().to(F64)[:, live] for nm, m in mods.items()}
            for nm in P:
                ctx.tick(int(P[nm].numel()), nontrivial=int(P[nm].numel()))
                if not bool(((P[nm] == Pn[nm]) | (P[nm].isnan() & Pn[nm].isnan())).all()):
                    r, c = (int(x) for x in (P[nm] != Pn[nm]).nonzero()[0])
                    ctx.violation(f"BlackScholes({type(derivs[nm]).__name__})", f"bound_price_depends_on_grad_mode_after_{route}",
                                  f"{nm} price() under torch.no_grad() differs from the price with autograd enabled after history {hist[:rnd]}: "
                                  f"path {stock.spot[r].tolist()} step {c}", observed=float(Pn[nm][r, c]), expected=float(P[nm][r, c]), block=mb)
            spot = spot * fxv                                       # the contract's own price definition
            S = spot[:, live]
            Mx = spot.cummax(dim=-1).values[:, live]               # exact on the buffer values
            s = (S / K).log()
            m = (Mx / K).log()
            steps = torch.arange(T, dtype=F64) * dt
            w = sigma * (steps[-1] - steps)[live].sqrt().unsqueeze(0)
            tol_eu = C_TOL * eps * K * (1 + s.exp())
            tol_bin = C_TOL * eps * (1 + s.exp())
            tol_lb = C_TOL * eps * K * (1 + s.exp() + m.exp()) * (1 + w) ** 2
            n = S.numel()

            def flag(site, cls, bad, text, obs, exp):
                ctx.tick(n, nontrivial=n if rnd else 0)
                if bad.any():
                    r, c = (int(x) for x in bad.nonzero()[0])
                    ctx.violation(f"BlackScholes({site})" if fx is None else f"BS*.from_derivative(FX{site}: user subclass overriding moneyness)",
                                  f"{cls}_after_{route}",
                                  f"{text} after history {hist[:rnd]}: path {stock.spot[r].tolist()} step {c}, strike {K}",
                                  observed=float(obs[r, c]), expected=exp if isinstance(exp, str) else float(exp[r, c]), block=mb)

            lb, am, ec, ep, bc = P["lookback"], P["american_binary"], P["european_call"], P["european_put"], P["binary_call"]
            flag("LookbackOption", "bound_lookback_below_european", ~(lb >= ec - tol_lb - tol_eu),
                 "lookback price() < European call price()", lb, ec)
            locked = (Mx - K).clamp(min=0)
            flag("LookbackOption", "bound_lookback_below_locked_in", ~(lb >= locked - tol_lb),
                 "lookback price() < locked-in payoff max(M - K, 0) of the CURRENT paths", lb, locked)
            flag("AmericanBinaryOption", "bound_american_outside_unit_interval", ~((am >= -tol_bin) & (am <= 1 + tol_bin)),
                 "American binary price() outside [0, 1]", am, "[0, 1]")
            flag("AmericanBinaryOption", "bound_american_below_european_binary", ~(am >= bc - 2 * tol_bin),
                 "American binary price() < European binary price()", am, bc)
            hit = Mx >= K
            ctx.add("barrier_reached_cells", int(hit.sum()))
            flag("AmericanBinaryOption", "bound_american_not_one_after_hit", hit & ~(am == 1.0),
                 "American binary price() != 1 although the running maximum of the CURRENT path has reached the strike", am, "1.0")
            flag("EuropeanOption", "bound_parity", ~((ec - ep - (S - K)).abs() <= 2 * tol_eu + 4 * eps * (S + K)),
                 "European call price() - put price() != S - K", ec - ep, S - K)
            # ---- partial explicit arguments: an explicit log-moneyness (others from the derivative), an explicit time only ----
            if fx is None:
                import pfhedge.nn.functional as Fn
                d0 = derivs["european_call"]
                own = {"lm": d0.log_moneyness(), "mx": derivs["lookback"].max_log_moneyness(), "tt": d0.time_to_maturity(), "v": d0.ul().volatility}
                for tag, kw_, lm_x, tt_x in (("explicit_log_moneyness", {"log_moneyness": own["lm"] - 0.25}, own["lm"] - 0.25, own["tt"]),
                                             ("explicit_time_to_maturity", {"time_to_maturity": own["tt"] * 0.5}, own["lm"], own["tt"] * 0.5)):
                    Q = {nm: m_.price(**kw_).to(F64)[:, live] for nm, m_ in mods.items()}
                    refs = {"european_call": Fn.bs_european_price(lm_x, tt_x, own["v"], K, True),
                            "european_put": Fn.bs_european_price(lm_x, tt_x, own["v"], K, False),
                            "binary_call": Fn.bs_european_binary_price(lm_x, tt_x, own["v"], True),
                            "american_binary": Fn.bs_american_binary_price(lm_x, own["mx"], tt_x, own["v"]),
                            "lookback": Fn.bs_lookback_price(lm_x, own["mx"], tt_x, own["v"], K)}
                    s2 = lm_x.to(F64)[:, live]
                    S2 = K * s2.exp()
                    t_eu = C_TOL * eps * K * (1 + s2.exp())
                    t_lb = C_TOL * eps * K * (1 + s2.exp() + m.exp()) * (1 + w) ** 2
                    for nm in Q:
                        r_ = refs[nm].to(F64)[:, live]
                        flag(type(derivs[nm]).__name__, f"bound_{tag}_not_used_{nm}", ~((Q[nm] == r_) | (Q[nm].isnan() & r_.isnan())),
                             f"{nm} price({tag[9:]}=tensor, others omitted) != functional form at (the explicit value, the derivative's other state)", Q[nm], r_)
                    flag("EuropeanOption", f"bound_{tag}_parity", ~((Q["european_call"] - Q["european_put"] - (S2 - K)).abs() <= 2 * t_eu + 4 * eps * (S2 + K)),
                         f"call - put != S - K at the requested {tag[9:]}", Q["european_call"] - Q["european_put"], S2 - K)
                    flag("EuropeanOption", f"bound_{tag}_call_bounds", ~((Q["european_call"] >= (S2 - K).clamp(min=0) - t_eu) & (Q["european_call"] <= S2 + t_eu)),
                         f"call outside [intrinsic, S] at the requested {tag[9:]}", Q["european_call"], S2)
                    flag("LookbackOption", f"bound_{tag}_lookback_below_european", ~(Q["lookback"] >= Q["european_call"] - t_lb - t_eu),
                         f"lookback < European call at the requested {tag[9:]}", Q["lookback"], Q["european_call"])
                    flag("AmericanBinaryOption", f"bound_{tag}_american_below_binary", ~(Q["american_binary"] >= Q["binary_call"] - 2 * C_TOL * eps * (1 + s2.exp())),
                         f"American binary < European binary at the requested {tag[9:]}", Q["american_binary"], Q["binary_call"])
            # ---- per-step accessors, incl. the negative aliases -2 .. -T (max_moneyness(-1) raises on the reference tree) ----
            site_sfx = "" if fx is None else ": user subclass overriding moneyness"
            for nm in ("american_binary", "lookback"):
                d_ = derivs[nm]
                full_lm, full_mx, full_tt = d_.log_moneyness(), d_.max_log_moneyness(), d_.time_to_maturity()
                vol_ = d_.ul().volatility
                for i in list(range(T)) + list(range(-2, -T - 1, -1)):
                    j = i if i >= 0 else T + i
                    site = f"{type(d_).__name__}.max_log_moneyness(time_step)"
                    try:
                        tri = (d_.log_moneyness(i), d_.max_log_moneyness(i), d_.time_to_maturity(i))
                    except (IndexError, RuntimeError) as e:
                        ctx.tick(1)
                        ctx.violation(site, f"step_accessor_raises:{type(e).__name__}", f"accessors at time_step={i} raised {e} after history {hist[:rnd]}",
                                      observed=repr(e)[:200], expected="values of step %d" % j, block=mb)
                        continue
                    ctx.tick(3 * N, nontrivial=3 * N if i < 0 else 0)
                    ctx.add("step_accessor_triples")
                    for what, got, full in zip(("log_moneyness", "max_log_moneyness", "time_to_maturity"), tri, (full_lm, full_mx, full_tt)):
                        if tuple(got.shape) != (N, 1) or not torch.equal(got, full[:, [j]]):
                            r = int((got != full[:, [j]]).flatten().nonzero()[0]) if tuple(got.shape) == (N, 1) else 0
                            ctx.violation(f"{type(d_).__name__}.{what}(time_step)", "step_accessor_differs_from_step_" + ("negative_alias" if i < 0 else "index"),
                                          f"{what}({i}) != column {j} of {what}() after history {hist[:rnd]}: path {stock.spot[r].tolist()}, strike {K}{site_sfx}",
                                          observed=float(got.flatten()[r]) if tuple(got.shape) == (N, 1) else list(got.shape),
                                          expected=float(full[r, j]), block=mb)
                    lm_i, mx_i, tt_i = tri
                    if tuple(mx_i.shape) != (N, 1) or tuple(lm_i.shape) != (N, 1):
                        continue
                    below = mx_i < lm_i
                    if below.any():
                        r = int(below.flatten().nonzero()[0])
                        ctx.violation(site, "step_running_max_below_current", f"max_log_moneyness({i}) < log_moneyness({i}) on path {stock.spot[r].tolist()}, strike {K}{site_sfx}",
                                      observed=float(mx_i[r, 0]), expected=f">= {float(lm_i[r, 0])}", block=mb)
                    if j >= T - 1:
                        continue                      # expiry column: C18
                    pr = mods[nm].price(lm_i, mx_i, tt_i, vol_[:, [j]]).to(F64)
                    ctx.tick(N, nontrivial=N)
                    hit_j = (spot.cummax(dim=-1).values[:, [j]] >= K)
                    if nm == "american_binary":
                        bad = ~((pr >= -tol_bin[:, [j]]) & (pr <= 1 + tol_bin[:, [j]])) | (hit_j & ~(pr == 1.0))
                        if bad.any():
                            r = int(bad.flatten().nonzero()[0])
                            ctx.violation("BlackScholes(AmericanBinaryOption)", "step_accessors_american_outside_unit_interval_or_not_one_after_hit",
                                          f"price(log_moneyness({i}), max_log_moneyness({i}), time_to_maturity({i}), vol) = {float(pr[r, 0])} on path "
                                          f"{stock.spot[r].tolist()} (barrier reached by then: {bool(hit_j[r, 0])}), strike {K}{site_sfx}",
                                          observed=float(pr[r, 0]), expected="in [0, 1], == 1 once reached", block=mb)
                    else:
                        lockj = (spot.cummax(dim=-1).values[:, [j]] - K).clamp(min=0)
                        bad = ~(pr >= lockj - tol_lb[:, [j]])
                        if bad.any():
                            r = int(bad.flatten().nonzero()[0])
                            ctx.violation("BlackScholes(LookbackOption)", "step_accessors_lookback_below_locked_in",
                                          f"price(accessors at step {i}) = {float(pr[r, 0])} < locked-in payoff {float(lockj[r, 0])} on path {stock.spot[r].tolist()}, strike {K}{site_sfx}",
                                          observed=float(pr[r, 0]), expected=float(lockj[r, 0]), block=mb)

        check_round(0)
        for rnd, route in enumerate(hist, start=1):
            holder["next"] = contents[rnd % len(contents)]
            if route == "set_buffers":
                market.set_buffers(stock, spot=holder["next"])
            elif route == "stock_simulate":
                stock.simulate(n_paths=N, time_horizon=(T - 1) * dt)
            else:
                derivs[{"sim_via_lookback": "lookback", "sim_via_american_binary": "american_binary",
                        "sim_via_european": "european_call"}[route]].simulate(n_paths=N)
            if not torch.equal(stock.spot, holder["next"]):
                raise HarnessError(f"route {route} did not install the scripted paths")
            check_round(rnd)
    ctx.outcome(("bound", block["strike"], block["dtype"], len(block["histories"])))


@family
def integer_inputs(ctx, block):
    """Integer-dtype tensors with a python-number volatility.  (A) time to maturity in whole years as an integer tensor,
    float log-moneyness: every price function / module must return the dtype of the float arguments and the value of
    the call with the time tensor converted to that dtype - to float32 accuracy, because torch takes the square root
    of an integer tensor in the default dtype float32 (so the slack is 32 eps(float32) scale whatever the float dtype);
    hence the prices stay monotone in t and sigma across the two call forms.  (B) integer log-moneyness 0 (at the
    money) with float time: same demand (classified separately).  block: dtype, vols, K."""
    import pfhedge.nn as nn
    import pfhedge.nn.functional as F
    d = DT[block["dtype"]]
    eps32 = torch.finfo(torch.float32).eps
    K = block["K"]
    tI = torch.tensor(block.get("t_int", [1, 2, 4, 5])).view(1, -1)
    tF = tI.to(d)
    sF = torch.tensor(block.get("s", [-0.5, -0.125, 0.0, 0.25, 0.5]), dtype=d).view(-1, 1)
    mF = sF + 0.125
    sI = torch.zeros(3, 1, dtype=torch.int64)
    forms = {
        "bs_european_price": lambda s, m, t, v: F.bs_european_price(s, t, v, strike=K, call=True),
        "bs_european_price(put)": lambda s, m, t, v: F.bs_european_price(s, t, v, strike=K, call=False),
        "bs_european_binary_price": lambda s, m, t, v: F.bs_european_binary_price(s, t, v, call=True),
        "bs_american_binary_price": lambda s, m, t, v: F.bs_american_binary_price(s, m, t, v),
        "bs_lookback_price": lambda s, m, t, v: F.bs_lookback_price(s, m, t, v, K),
        "BSEuropeanOption.price": lambda s, m, t, v: nn.BSEuropeanOption(strike=K).price(s, t, v),
        "BSEuropeanBinaryOption.price": lambda s, m, t, v: nn.BSEuropeanBinaryOption(strike=K).price(s, t, v),
        "BSAmericanBinaryOption.price": lambda s, m, t, v: nn.BSAmericanBinaryOption(strike=K).price(s, m, t, v),
        "BSLookbackOption.price": lambda s, m, t, v: nn.BSLookbackOption(strike=K).price(s, m, t, v),
    }
    for site, fn in forms.items():
        if block.get("sites") and site not in block["sites"]:
            continue
        for case in block.get("cases", ["integer_time", "integer_log_moneyness"]):
            prev = None
            for v in block["vols"]:
                if case == "integer_time":
                    s_, m_, t_, sref, mref = sF, mF, tI, sF, mF
                else:
                    s_, m_, t_, sref, mref = sI, sI, tF, sI.to(d), sI.to(d)
                ref = fn(sref, mref, tF, torch.tensor(v, dtype=d)).to(F64)
                mb = dict(block, sites=[site], cases=[case], vols=[v])
                try:
                    out = fn(s_, m_, t_, v)
                except (RuntimeError, TypeError, ValueError) as e:
                    ctx.tick(1)
                    ctx.violation(site.split("(")[0], f"{case}_python_volatility_raises:{type(e).__name__}", f"{site}({case}, volatility={v}) raised {e}",
                                  observed=repr(e)[:200], expected="the value of the float call", block=mb)
                    continue
                n = int(ref.numel())
                ctx.tick(n, nontrivial=n)
                w = v * tF.to(F64).sqrt()
                scale = K * (1 + sref.to(F64).exp() + mref.to(F64).exp()) * (1 + w) ** 2
                if tuple(out.shape) != tuple(ref.shape) or not out.dtype.is_floating_point:
                    ctx.violation(site.split("(")[0], f"{case}_shape_or_dtype", f"{site}({case}) returned shape {tuple(out.shape)} dtype {out.dtype}",
                                  observed=[list(out.shape), str(out.dtype)], expected=[list(ref.shape), "floating"], block=mb)
                    continue
                bad = ~((out.to(F64) - ref).abs() <= C_TOL * eps32 * scale)
                if bad.any():
                    i = tuple(int(x) for x in bad.nonzero()[0])
                    ctx.violation(site.split("(")[0], f"{case}_python_volatility_differs_from_float_call" if case == "integer_time"
                                  else "integer_log_moneyness_python_volatility_truncated",
                                  f"{site} with {'an integer-dtype time tensor' if case == 'integer_time' else 'integer log-moneyness 0'} and python-float "
                                  f"volatility {v} returns {float(out[i])}; with the tensor converted to {block['dtype']} it returns {float(ref[i])} "
                                  f"(t={float(tF[0, i[1]])})", observed=float(out[i]), expected=float(ref[i]), block=mb)
                elif case == "integer_time":
                    if out.dtype != d:
                        ctx.violation(site.split("(")[0], "integer_time_result_dtype", f"{site}(float {block['dtype']} log-moneyness, integer time) returned {out.dtype}",
                                      observed=str(out.dtype), expected=str(d), block=mb)
                    o = out.to(F64)
                    tol = C_TOL * eps32 * scale
                    # non-decreasing in t (along the integer axis) and in sigma, call forms only
                    if "put" not in site and "binary_price" != site[-12:] and "BSEuropeanBinaryOption" not in site:
                        dec_t = ~(o[:, 1:] >= o[:, :-1] - 2 * tol[:, 1:])
                        ctx.tick(int(dec_t.numel()), nontrivial=int(dec_t.numel()))
                        if dec_t.any():
                            ctx.violation(site, "integer_time_not_monotone_in_time", f"{site} decreases along the integer time axis (volatility {v})",
                                          observed=o[0].tolist(), expected="non-decreasing", block=mb)
                        if prev is not None:
                            dec_v = ~(o >= prev - 2 * tol)
                            ctx.tick(int(dec_v.numel()), nontrivial=int(dec_v.numel()))
                            if dec_v.any():
                                ctx.violation(site, "integer_time_not_monotone_in_volatility", f"{site} decreases from the previous volatility to {v}",
                                              observed=float(o[dec_v][0]), expected="non-decreasing", block=mb)
                        prev = o
    # ---- exactly ONE integer tensor, at every argument position, all other arguments python numbers ----
    if block.get("single", True) and block["dtype"] == "float32":
        num = {"s": -0.125, "m": 0.25, "t": 1.5, "v": 0.25}
        ints = {"s": torch.tensor([-1, 0]), "m": torch.tensor([0, 1]), "t": torch.tensor([1, 2, 5]), "v": torch.tensor([1, 2])}
        dflt = torch.get_default_dtype()
        for site, fn in forms.items():
            if block.get("sites") and site not in block["sites"]:
                continue
            has_m = "american" in site.lower() or "lookback" in site.lower()
            for pos in (("s", "m", "t", "v") if has_m else ("s", "t", "v")):
                if block.get("positions") and pos not in block["positions"]:
                    continue
                a = dict(num)
                a[pos] = ints[pos]
                if "american" in site.lower() and pos != "m":
                    # max_log_moneyness of the American binary is documented (and only accepted) as a tensor
                    a["m"] = torch.tensor(0.25)
                ref_args = {k: (v_.to(dflt) if isinstance(v_, torch.Tensor) else torch.tensor(v_, dtype=dflt)) for k, v_ in a.items()}
                ref = fn(ref_args["s"], ref_args["m"], ref_args["t"], ref_args["v"]).to(F64)
                mb = dict(block, sites=[site], positions=[pos], cases=[])
                try:
                    out = fn(a["s"], a["m"], a["t"], a["v"])
                except (RuntimeError, TypeError, ValueError, AttributeError) as e:
                    ctx.tick(1)
                    ctx.violation(site.split("(")[0], f"single_integer_tensor_{pos}_raises:{type(e).__name__}",
                                  f"{site} with an integer tensor for '{pos}' and python numbers elsewhere raised {e}", observed=repr(e)[:200],
                                  expected="the value of the float call", block=mb)
                    continue
                ctx.tick(int(ref.numel()), nontrivial=int(ref.numel()))
                sc = K * (1 + ref_args["s"].to(F64).exp() + ref_args["m"].to(F64).exp()) * (1 + ref_args["v"].to(F64) * ref_args["t"].to(F64).sqrt()) ** 2
                if tuple(out.shape) != tuple(ref.shape) or not out.dtype.is_floating_point \
                        or bool((~((out.to(F64) - ref).abs() <= C_TOL * eps32 * sc)).any()):
                    ctx.violation(site.split("(")[0], f"single_integer_tensor_{pos}_python_numbers_truncated",
                                  f"{site} with an integer tensor for '{pos}' ({ints[pos].tolist()}) and python numbers {dict((k, v_) for k, v_ in a.items() if k != pos)} "
                                  f"returns {out.flatten().tolist()}; the float call returns {ref.flatten().tolist()}",
                                  observed=out.flatten().tolist(), expected=ref.flatten().tolist(), block=mb)
    ctx.outcome(("integer", block["dtype"]))


ATTR_OPS = ("flip_call", "set_strike", "copy", "deepcopy")


@family
def module_attr_parity(ctx, block):
    """Attribute-mutation histories on BSEuropeanOption / BSEuropeanBinaryOption: a second module is derived from a
    call (or put) module by a history of copy.copy / copy.deepcopy / `.call = not .call` / `.strike = K1`; whatever the
    history, two modules whose CURRENT public attributes are (call=True, K) and (call=False, K) must satisfy parity
    (C - P = S - K, binC + binP = 1) and a module's price must coincide (bitwise) with the functional form at its
    current (call, strike).  block: dtype, strike0, strike1, histories."""
    import copy as _copy
    import pfhedge.nn as nn
    import pfhedge.nn.functional as F
    d = DT[block["dtype"]]
    eps = torch.finfo(d).eps
    s = torch.tensor([-0.5, -0.125, 0.0, 0.25, 0.5], dtype=d)
    t = torch.tensor([0.25, 1.0, 0.0625, 2.0, 0.5], dtype=d)
    v = torch.tensor([0.25, 0.5, 1.0, 0.125, 0.375], dtype=d)
    s64 = s.to(F64)
    for cls_name, fn in (("BSEuropeanOption", F.bs_european_price), ("BSEuropeanBinaryOption", F.bs_european_binary_price)):
        for call0 in (True, False):
            for hist in block["histories"]:
                mods = [getattr(nn, cls_name)(call=call0, strike=block["strike0"])]
                for op in hist:
                    cur = mods[-1]
                    if op == "flip_call":
                        cur.call = not cur.call
                    elif op == "set_strike":
                        cur.strike = block["strike1"] if cur.strike != block["strike1"] else block["strike0"]
                    elif op == "copy":
                        mods.append(_copy.copy(cur))
                    else:
                        mods.append(_copy.deepcopy(cur))
                mb = dict(block, histories=[hist])
                for i, mod in enumerate(mods):
                    K, call = mod.strike, bool(mod.call)
                    out = mod.price(s, t, v).to(F64)
                    kw = {"strike": K} if cls_name == "BSEuropeanOption" else {}
                    ref = fn(s, t, v, call=call, **kw).to(F64)
                    partner = fn(s, t, v, call=not call, **kw).to(F64)
                    ctx.tick(2 * s.numel(), nontrivial=2 * s.numel() if hist else 0)
                    if cls_name == "BSEuropeanOption":
                        resid = (out - partner) * (1 if call else -1) - K * torch.expm1(s64)
                        tol = 2 * C_TOL * eps * K * (1 + s64.exp())
                    else:
                        resid = out + partner - 1
                        tol = 2 * C_TOL * eps * (1 + s64.exp())
                    if not bool((resid.abs() <= tol).all()):
                        j = int((~(resid.abs() <= tol)).nonzero()[0])
                        ctx.violation(cls_name + ".price", "parity_after_attribute_history_" + (hist[-1] if hist else "construction"),
                                      f"module #{i} of history {hist} (started as call={call0}) now has call={call}, strike={K}; its price and the "
                                      f"{'put' if call else 'call'} price of the same strike break parity at s={float(s[j])}, t={float(t[j])}, v={float(v[j])}",
                                      observed=float(resid[j]), expected=0.0, block=mb)
                    elif not bool((out == ref).all()):
                        j = int((out != ref).nonzero()[0])
                        ctx.violation(cls_name + ".price", "price_ignores_current_attributes_after_" + (hist[-1] if hist else "construction"),
                                      f"module #{i} of history {hist}: price() != functional form at its current call={call}, strike={K}",
                                      observed=float(out[j]), expected=float(ref[j]), block=mb)
    ctx.outcome(("attr_parity", block["dtype"], len(block["histories"])))


# ----------------------------------------------------------------------------

def run(ctx):
    ctx.rule("full product grid log-moneyness x running max x t x v x K, one broadcast call per product; every "
             "relation instance contained in the grid: all points (parity, bounds, dominance), all ordered pairs "
             "along the spot, volatility and time axes (monotonicity), all equally spaced (in log-spot) triples of "
             "every stride (convexity), the +-eps neighbours of the strike for the running maximum (continuity); "
             "non-trivial = the two sides differ by more than the rounding slack")
    ctx.assume("slack = sum of the rounding allowances 32*eps*scale of the prices involved (derived in c07.py, "
               "confirmed there against the exact expectation); relations between grid points only")
    nS = ctx.pick(81, 321)
    T = ctx.pick([0.004, 0.08, 1.0, 5.0], [0.004, 0.02, 0.08, 0.25, 1.0, 2.0, 3.5, 5.0])
    V = ctx.pick([0.01, 0.2, 0.7, 2.0], [0.01, 0.05, 0.2, 0.4, 0.7, 1.0, 1.5, 2.0])
    K = ctx.pick([0.1, 1.0, 2.5, 10.0], [0.1, 1.0, 2.5, 10.0])
    M = ctx.pick([-0.4, -1e-3, 0.0, 1e-3, 0.35, 1.0], [-0.7, -0.4, -1e-3, 0.0, 1e-3, 0.35, 1.0])
    t_x = ctx.extra_symbol("time_to_maturity", [0.01, 0.3, 0.5, 2.5, 4.0])
    v_x = ctx.extra_symbol("volatility", [0.03, 0.1, 0.3, 1.2, 1.7])
    k_x = ctx.extra_symbol("strike", [0.25, 0.5, 1.5, 4.0, 7.3, 10.0])
    m_x = ctx.extra_symbol("max_log_moneyness", [-0.9, -0.15, -0.05, 0.1, 0.6])
    T, V, K, M = sorted(T + [t_x]), sorted(V + [v_x]), sorted(set(K + [k_x])), sorted(M + [m_x])
    s_spec = {"lo": -1.0, "hi": 1.0, "n": nS}
    ctx.alphabet("log_moneyness", f"{nS} equally spaced points of [-1, 1]")
    ctx.alphabet("time_to_maturity", T)
    ctx.alphabet("volatility", V)
    ctx.alphabet("strike", K)
    ctx.alphabet("max_log_moneyness", M + ["and, for continuity, -eps, 0, +eps with eps in 1e-6, 1e-9"])
    blocks = []
    for dname in ("float64", "float32"):
        # spot-axis relations: one block per time value (bounded memory for the all-pairs tensors)
        for t in T:
            for vs in ([V] if ctx.quick else [[v] for v in V]):
                blocks.append({"s": s_spec, "m": M, "t": [t], "v": vs, "K": K, "dtype": dname,
                               "rels": ["parity", "binary_sum", "call_bounds", "unit_interval", "monotone_spot", "convex_spot",
                                        "lookback_dominance", "american_dominance", "continuity_m0", "batch_independence", "grad_mode_independence"]})
        # one tensor object reused across the calls of a relation (own blocks: an exception elsewhere must not hide it)
        blocks.append({"s": {"lo": -1.0, "hi": 1.0, "n": ctx.pick(21, 81)}, "m": M, "t": T, "v": V, "K": K, "dtype": dname,
                       "rels": ["shared_tensor_reuse"]})
        # time / volatility axes
        blocks.append({"s": s_spec, "m": M, "t": T, "v": V, "K": K, "dtype": dname, "rels": ["monotone_vol", "monotone_time"]})
    if ctx.thorough:
        import os
        ctx.run_parallel("relations", blocks, workers=int(os.environ.get("VERIF_WORKERS", 4)))
    else:
        for b in blocks:
            ctx.run("relations", b)
    # diagonal m = s (spot at its maximum): each s with its own m
    for dname in ("float64", "float32"):
        for s in _axis({"lo": -1.0, "hi": 1.0, "n": ctx.pick(21, 81)}):
            ctx.run("relations", {"s": [s], "m": [s], "t": T, "v": V, "K": K, "dtype": dname,
                                  "rels": ["unit_interval", "lookback_dominance", "american_dominance", "monotone_vol", "monotone_time"]})
    # derivative-bound module prices with arguments omitted, over re-simulation histories
    f32v = lambda x: float(torch.tensor(x, dtype=torch.float32))
    hists = [list(h) for h in itertools.product(ROUTES, repeat=ctx.pick(2, 3))]
    ctx.alphabet("re-simulation routes", list(ROUTES))
    ctx.alphabet("at-the-money-at-inception strikes", [0.9, 1.03, 1.05, 1.3, "and their float32 roundings"])
    for dname in ("float64", "float32"):
        ctx.run("derivative_bound", {"A": [0.75, 1.0, 1.5], "T": 3, "dt": 0.25, "sigma": 0.25, "strike": 1.25, "dtype": dname,
                                     "histories": hists})
        for k0 in (0.9, 1.03, 1.05, 1.3):
            Kx = k0 if dname == "float64" else f32v(k0)
            ctx.run("derivative_bound", {"A": [Kx, 0.75, 1.5], "first": Kx, "T": 4, "dt": 0.125, "sigma": 0.5, "strike": Kx,
                                         "dtype": dname, "histories": [list(h) for h in itertools.product(ROUTES, repeat=1)] + [[]]})

    # user subclasses overriding moneyness() (option on fx * spot): optional diagnostic, not part of the claim
    for dname in (("float64", "float32") if USER_SUBCLASS_WORLDS else ()):
        for fx, Kf in ((1.25, 1.25), (0.5, 0.5)):
            ctx.run("derivative_bound", {"A": [0.75, 1.0, 1.5], "T": 3, "dt": 0.25, "sigma": 0.25, "strike": Kf, "fx": fx, "dtype": dname,
                                         "histories": [list(h) for h in itertools.product(ROUTES, repeat=1)] + [[]]})
    # integer-dtype time / log-moneyness tensors with python-number volatility
    for dname in ("float64", "float32"):
        for Kv in (1.0, 2.5):
            ctx.run("integer_inputs", {"dtype": dname, "vols": [0.1, 0.2, 0.7], "K": Kv})
    # attribute-mutation histories on the European / binary modules
    ahist = [[]] + [list(h) for dd in range(1, ctx.pick(3, 4) + 1) for h in itertools.product(ATTR_OPS, repeat=dd)]
    for dname in ("float64", "float32"):
        ctx.run("module_attr_parity", {"dtype": dname, "strike0": 1.0, "strike1": 2.5, "histories": ahist})

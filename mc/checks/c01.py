"""C01 - hedging P&L is the self-financing wealth identity.  Engine: grid.

Families
  pl_grid    pl()/terminal_value() on ALL (spot, unit) sequences per instrument and
             step over dyadic alphabets (x all payoffs of a payoff alphabet), packed on
             the path axis; oracle = exact integer arithmetic (pl_ref.pl_int), bitwise.
  pl_frac    same space for the small shapes, oracle = per-row Fractions (pl_ref.pl_fraction).
  hedger_pl  Hedger.compute_pl / compute_portfolio on scripted markets (all paths) for
             several hedge lists and models; oracle = Fractions on the hedging
             instruments' prices, the hedge the hedger computes, their cost rates, the payoff.
"""
from __future__ import annotations

import itertools
import os
from fractions import Fraction

import torch

from mc.core import market
from mc.core.explore import all_paths
from mc.models.pl_ref import pl_fraction, pl_int

FAMILIES = {}
SCALE = 8  # alphabets are integers / 8


def family(fn):
    FAMILIES[fn.__name__] = fn
    return fn


DT = {"float32": torch.float32, "float64": torch.float64}
USER_SUBCLASS_WORLDS = os.environ.get("VERIF_USER_SUBCLASS") == "1"


def _enumerate(H, T, As, Au, Ap):
    """All (spot, unit) assignments per cell, times all payoffs.  int64 tensors."""
    joint = [(s, u) for s in As for u in Au]
    cells = H * T
    idx = all_paths(list(range(len(joint))), cells).long()  # (N0, cells)
    s = torch.tensor([j[0] for j in joint], dtype=torch.int64)[idx].reshape(-1, H, T)
    u = torch.tensor([j[1] for j in joint], dtype=torch.int64)[idx].reshape(-1, H, T)
    if Ap:
        n0 = s.size(0)
        p = torch.tensor(Ap, dtype=torch.int64).repeat_interleave(n0)
        s = s.repeat(len(Ap), 1, 1)
        u = u.repeat(len(Ap), 1, 1)
    else:
        p = None
    return s, u, p


def _cases_to_tensors(cases):
    s = torch.tensor([c["spot"] for c in cases], dtype=torch.int64)
    u = torch.tensor([c["unit"] for c in cases], dtype=torch.int64)
    p = None
    if cases[0].get("payoff") is not None:
        p = torch.tensor([c["payoff"] for c in cases], dtype=torch.int64)
    return s, u, p


def _call_pl(block, s_i, u_i, p_i):
    import pfhedge.nn.functional as F
    dtype = DT[block["dtype"]]
    spot = s_i.to(dtype) / SCALE
    unit = u_i.to(dtype) / SCALE
    payoff = None if p_i is None else p_i.to(dtype) / SCALE
    cost = None if block["cost"] is None else [c / SCALE for c in block["cost"]]
    snap = (spot.clone(), unit.clone(), None if payoff is None else payoff.clone())
    if block["fn"] == "pl":
        kw = {}
        if block["first"] is not None:
            kw["deduct_first_cost"] = block["first"]
        out = F.pl(spot=spot, unit=unit, cost=cost, payoff=payoff, **kw)
    else:
        kw = {}
        if block["first"] is not None:
            kw["deduct_first_cost"] = block["first"]
        out = F.terminal_value(spot, unit, cost=cost, payoff=payoff, **kw)
    mutated = not (torch.equal(snap[0], spot) and torch.equal(snap[1], unit)
                   and (payoff is None or torch.equal(snap[2], payoff)))
    return out, mutated


@family
def pl_grid(ctx, block):
    H, T = block["H"], block["T"]
    if "cases" in block:
        s_i, u_i, p_i = _cases_to_tensors(block["cases"])
    else:
        s_i, u_i, p_i = _enumerate(H, T, block["As"], block["Au"], block.get("Ap"))
    if block.get("tile"):
        # a path count far above any block size an implementation might process in pieces, and not a
        # multiple of a power of two: the enumerated rows repeated cyclically
        idx = torch.arange(block["tile"]) % s_i.size(0)
        s_i, u_i, p_i = s_i[idx], u_i[idx], (None if p_i is None else p_i[idx])
    N = s_i.size(0)
    first = True if block["first"] is None else block["first"]
    gains, costs, pay = pl_int(s_i, u_i, block["cost"], p_i, first=first)
    # common scale SCALE**3
    expected_i = gains * SCALE - costs - pay * SCALE * SCALE
    dtype = DT[block["dtype"]]
    expected = expected_i.to(torch.float64) / SCALE ** 3
    out, mutated = _call_pl(block, s_i, u_i, p_i)
    site = "functional." + block["fn"]
    if mutated:
        ctx.violation(site, "mutates_arguments", "pl() modified a caller tensor", block=block)
    moving = (s_i[..., 1:] != s_i[..., :-1]).any(-1).any(-1)
    trading = (u_i[..., 1:] != u_i[..., :-1]).any(-1).any(-1)
    nontriv = int((moving & trading).sum()) if block["cost"] is not None and any(block["cost"]) else int(moving.sum())
    ctx.tick(N, nontrivial=nontriv)
    if tuple(out.shape) != (N,) or out.dtype != dtype:
        ctx.violation(site, "shape_or_dtype", f"output shape {tuple(out.shape)} dtype {out.dtype}",
                      observed=[list(out.shape), str(out.dtype)], expected=[[N], str(dtype)], block=block)
        return
    bad = (out.to(torch.float64) != expected).nonzero().flatten()
    for o in out[:: max(1, N // 50)].tolist():
        ctx.outcome(round(o, 6))
    if len(bad):
        i = int(bad[0])
        case = {"spot": s_i[i].tolist(), "unit": u_i[i].tolist(),
                "payoff": None if p_i is None else int(p_i[i])}
        mini = {k: block[k] for k in ("H", "T", "cost", "first", "dtype", "fn")}
        mini["cases"] = [case]
        cls = _classify(s_i[i], u_i[i], block)
        if block.get("tile"):
            mini, cls = dict(block), cls + "_largeN"
        ctx.violation(site, cls,
                      f"pl != wealth identity on {len(bad)}/{N} rows (H={H},T={T},cost={block['cost']},"
                      f"first={block['first']},payoff={'yes' if p_i is not None else 'no'},{block['dtype']})",
                      observed=float(out[i]), expected=float(expected[i]), block=mini)
    if ctx.samples == [] or (len(ctx.samples) < 3 and block["cost"] and H > 1):
        i = N // 2
        ctx.sample({"family": "pl_grid", "H": H, "T": T, "cost/8": block["cost"], "first": block["first"],
                    "spot/8": s_i[i].tolist(), "unit/8": u_i[i].tolist(),
                    "payoff/8": None if p_i is None else int(p_i[i]),
                    "pl": float(out[i]), "reference": float(expected[i])})


def _classify(s, u, block):
    parts = []
    parts.append("cost" if block["cost"] is not None and any(block["cost"]) else "nocost")
    if block["first"] is False:
        parts.append("nofirst")
    return "identity_" + "_".join(parts)


@family
def pl_frac(ctx, block):
    """Small shapes against the per-row Fraction oracle (no shared vectorised structure)."""
    H, T = block["H"], block["T"]
    if "cases" in block:
        s_i, u_i, p_i = _cases_to_tensors(block["cases"])
    else:
        s_i, u_i, p_i = _enumerate(H, T, block["As"], block["Au"], block.get("Ap"))
    N = s_i.size(0)
    out, _ = _call_pl(block, s_i, u_i, p_i)
    first = True if block["first"] is None else block["first"]
    cost = None if block["cost"] is None else [Fraction(c, SCALE) for c in block["cost"]]
    ctx.tick(N, nontrivial=int((s_i[..., 1:] != s_i[..., :-1]).any(-1).any(-1).sum()))
    sl = s_i.tolist()
    ul = u_i.tolist()
    pl_ = None if p_i is None else p_i.tolist()
    outl = out.tolist()
    for i in range(N):
        S = [[Fraction(x, SCALE) for x in row] for row in sl[i]]
        U = [[Fraction(x, SCALE) for x in row] for row in ul[i]]
        Z = None if pl_ is None else Fraction(pl_[i], SCALE)
        exp = pl_fraction(S, U, cost, Z, first)
        if outl[i] != outl[i] or abs(outl[i]) == float("inf") or Fraction(outl[i]) != exp:
            mini = {k: block[k] for k in ("H", "T", "cost", "first", "dtype", "fn")}
            mini["cases"] = [{"spot": sl[i], "unit": ul[i], "payoff": None if pl_ is None else pl_[i]}]
            ctx.violation("functional." + block["fn"], _classify(None, None, block) + "_frac",
                          "pl != wealth identity (Fraction oracle)", observed=outl[i],
                          expected=float(exp), block=mini)
            break


# ----------------------------------------------------------------------------
# hedger level
# ----------------------------------------------------------------------------

def _dyadic_linear(n_in, n_out, seed, dtype):
    lin = torch.nn.Linear(n_in, n_out).to(dtype)
    g = torch.Generator().manual_seed(1000 + seed)
    with torch.no_grad():
        w = torch.randint(-8, 9, (n_out, n_in), generator=g).to(dtype) / 8
        b = torch.randint(-4, 5, (n_out,), generator=g).to(dtype) / 8
        w[w == 0] = 0.5
        lin.weight.copy_(w)
        lin.bias.copy_(b)
    return lin


def LISTED_PRICE(spot, kind="convex"):
    """Deterministic dyadic pricer of the listed hedge: a convex function of the underlier's spot,
    or (kind="signed") a price that is NEGATIVE on part of the grid, like a swap's mark-to-market."""
    if kind == "signed":
        return spot - 1.125
    return torch.nn.functional.relu(spot - 1.125) + 0.25 * spot


def oracle_spots(hl):
    """Current prices of the hedging instruments, computed WITHOUT going through ``listed.spot``
    (so a stale / cached listed price is visible): primaries by their buffer, the listed option by
    the pricing rule applied to the underlier's current buffer."""
    cols = []
    for h in hl:
        if hasattr(h, "named_buffers"):
            cols.append(h.get_buffer("spot"))
        else:
            cols.append(LISTED_PRICE(h.ul().get_buffer("spot"), getattr(h, "_verif_pricer_kind", "convex")))
    return torch.stack(cols, dim=1)


def round_paths(spot, r):
    """Path set registered by the r-th (re-)simulation: dyadic, different from round to round."""
    if r == 0:
        return spot
    if r == 1:
        return spot.flip(0) * 0.5 + 0.5
    return (spot.flip(1) * 1.5 - 0.25).clamp(min=0.25)


def build_world(block):
    """Real instruments with scripted buffers + a hedger.  Returns (hedger, derivative, hedge_list)."""
    import pfhedge.instruments as I
    from pfhedge.nn import BlackScholes, Hedger, Naked, WhalleyWilmott
    dtype = DT[block["dtype"]]
    T = block["T"]
    A = [a / SCALE for a in block["A"]]
    costs = [c / SCALE / 16 for c in block["costs"]]  # dyadic, small; may contain zeros
    spot = all_paths(A, T, dtype=dtype)
    if block.get("rows") is not None:
        spot = spot[block["rows"]]
    tile_idx = None
    if block.get("tile"):
        tile_idx = torch.arange(block["tile"]) % spot.size(0)
    spot_small = spot
    if tile_idx is not None:
        spot = spot[tile_idx]
    N = spot.size(0)
    stock = market.primary("brownian", dtype=dtype, cost=costs[0], dt=market.DT, sigma=0.25)
    market.set_buffers(stock, spot=spot)
    kind = block["derivative"]
    kw = {"strike": block.get("strike", 1.0)}
    if kind in ("european", "lookback", "european_binary", "american_binary") and not block.get("call", True):
        kw["call"] = False
    if kind == "variance_swap":
        kw = {"strike": 0.0625}
    if kind == "forward_start":
        kw = {"strike": 1.0, "start": market.DT}
    deriv = market.derivative(kind, stock, T=T, **kw)
    if block.get("clauses"):
        # clauses that really change the payoff on part of the path set (knock-out on the path maximum, cap)
        deriv.add_clause("verif_knockout", lambda d, payoff: payoff.where(
            d.ul().spot.max(-1).values < 1.5, torch.zeros_like(payoff)))
        deriv.add_clause("verif_cap", lambda d, payoff: payoff.clamp(max=0.25))
    if block.get("listed_self"):
        # the HEDGED derivative is itself listed, with a quote that does not converge to its payoff
        # (like the documented variance-swap pricer): P&L settles the payoff, never the last quote
        deriv.list(lambda d: LISTED_PRICE(d.ul().spot, "signed") + 0.5, cost=0.0)
    if block.get("multiplier"):
        # contract multiplier (a power of two, so the payoff stays exactly representable): the payoff is
        # many orders above the hedge wealth, which the portfolio value must not feel at all
        mult = float(2 ** block["multiplier"])
        deriv.add_clause("verif_multiplier", lambda d, payoff: payoff * mult)
    hv = block["hedge"]
    stock2 = None
    if hv in ("stock+stock2",):
        stock2 = market.primary("brownian", dtype=dtype, cost=costs[1], dt=market.DT, sigma=0.5)
        spot2 = (spot_small.flip(0) * 2 - 0.5).clamp(min=0.125)
        market.set_buffers(stock2, spot=spot2 if tile_idx is None else spot2[tile_idx])
    listed = None
    if hv in ("stock+listed", "listed", "listed+stock"):
        listed = I.EuropeanOption(stock, strike=1.125, maturity=(T - 1) * market.DT)
        # deterministic dyadic pricer: a convex function of the underlier's spot
        pk = block.get("pricer", "convex")
        listed._verif_pricer_kind = pk
        listed.list(lambda d: LISTED_PRICE(d.ul().spot, pk), cost=costs[-1])
    hedge = {"default": None, "stock": [stock], "stock+stock2": [stock, stock2],
             "stock+listed": [stock, listed], "listed+stock": [listed, stock], "listed": [listed]}[hv]
    H = 1 if hedge is None else len(hedge)
    mv = block["model"]
    is_option = kind in market.OPTION_KINDS
    base_inputs = ["moneyness", "time_to_maturity"] if is_option else ["underlier_spot", "zeros"]
    if mv == "linear":
        inputs = list(base_inputs)
        model = _dyadic_linear(len(inputs), H, block.get("wseed", 0), dtype)
    elif mv == "linear_prev":
        inputs = base_inputs + ["prev_hedge"]
        model = _dyadic_linear(len(inputs) - 1 + H, H, block.get("wseed", 0), dtype)
    elif mv == "bs":
        model = BlackScholes(deriv)
        inputs = model.inputs()
    elif mv == "ww":
        model = WhalleyWilmott(deriv)
        inputs = model.inputs()
    elif mv == "naked":
        model = Naked(H)
        inputs = ["zeros"]
    elif mv == "passthrough":
        # a parameter-free model that hands its single input through (Clamp without bounds): the hedge IS the
        # feature tensor, whatever storage that tensor shares
        from pfhedge.nn import Clamp
        model = Clamp()
        inputs = [block.get("feature", "underlier_spot")]
    else:
        raise KeyError(mv)
    cls = Hedger
    if block.get("subclass"):
        # a user subclass that post-processes the positions through the public, documented method
        # (round lots of 1/4): "the hedge it computes" is then the overridden one
        class RoundLotHedger(Hedger):
            def compute_hedge(self, derivative, hedge=None):
                return super().compute_hedge(derivative, hedge=hedge).mul(4).round().div(4)
        cls = RoundLotHedger
    hedger = cls(model, inputs)
    return hedger, deriv, hedge, (stock, stock2, listed)


def hedger_blocks_ok(block):
    H = {"default": 1, "stock": 1, "listed": 1}.get(block["hedge"], 2)
    if block["model"] in ("bs", "ww"):
        if H != 1:
            return False
        if block["derivative"] not in market.OPTION_KINDS:
            return False
        if block["derivative"] in ("lookback", "american_binary") and not block.get("call", True):
            return False
    return True


@family
def hedger_pl(ctx, block):
    hedger, deriv, hedge, (stock, stock2, listed) = build_world(block)
    # bitwise comparison only where every intermediate is exactly representable: float64, dyadic
    # model, and (for the recurrent model, whose mantissa grows ~12 bits per step) T <= 3;
    # otherwise a derived rounding tolerance (8*H*T*eps*scale) - mutations move values at O(1e-2).
    exact = (block["model"] in ("linear", "linear_prev", "naked") and block["derivative"] in (
        "european", "lookback", "european_binary", "american_binary") and block["dtype"] == "float64"
        and (block["model"] != "linear_prev" or block["T"] <= 3) and not block.get("multiplier"))
    base_spot = stock.get_buffer("spot").clone()
    rounds = block.get("rounds", [0])
    for r in rounds:
        if r > 0:
            # re-simulate THROUGH THE HEDGED DERIVATIVE (r=1) or the primary itself (r=2): the listed
            # hedge and the hedger see new prices without having been touched themselves
            sim = market.ScriptedSimulate(stock, [{"spot": round_paths(base_spot, r)}])
            try:
                if r == 1:
                    deriv.simulate(n_paths=base_spot.size(0))
                else:
                    stock.simulate(n_paths=base_spot.size(0), time_horizon=deriv.maturity)
            finally:
                sim.remove()
        _hedger_round(ctx, block, hedger, deriv, hedge, exact, r)
    if block.get("swap"):
        # the SAME derivative object gets another underlier (attribute assignment), then the same hedger
        # is asked again with the default hedge: prices, cost rate and payoff are those of the new stock
        dtype = DT[block["dtype"]]
        other = market.primary("brownian", dtype=dtype, cost=5 / SCALE / 16, dt=market.DT, sigma=0.5)
        market.set_buffers(other, spot=round_paths(base_spot, 2))
        deriv.underlier = other
        _hedger_round(ctx, block, hedger, deriv, hedge, exact, "swap")
        # ... and a different derivative object on the first stock
        kw = {"strike": 1.0}
        deriv2 = market.derivative("european", stock, T=block["T"], **kw)
        _hedger_round(ctx, block, hedger, deriv2, hedge, exact, "newderiv")


def _hedger_round(ctx, block, hedger, deriv, hedge, exact, r):
    hl = hedge if hedge is not None else list(deriv.underliers())
    # the market as registered BEFORE the hedger is asked anything: the oracle's prices
    spots = oracle_spots(hl).clone()
    with torch.no_grad():
        unit_ret = hedger.compute_hedge(deriv, hedge=hedge)
        unit = unit_ret.clone()
        pl = hedger.compute_pl(deriv, hedge=hedge)
        pf = hedger.compute_portfolio(deriv, hedge=hedge)
        unit_again = hedger.compute_hedge(deriv, hedge=hedge)
        payoff = deriv.payoff()
    if not torch.equal(oracle_spots(hl), spots):
        ctx.violation("Hedger.compute_*", "mutates_market" + (f"_round{r}" if r else ""),
                      f"the registered prices changed while the hedger was evaluated (model={block['model']}, "
                      f"hedge list {block['hedge']})", block=block)
    if tuple(unit_ret.shape) == tuple(unit.shape) and not torch.equal(unit_ret, unit):
        ctx.violation("Hedger.compute_hedge", "returned_hedge_mutated_by_later_call",
                      f"the tensor returned by compute_hedge was modified by a later compute_pl/compute_portfolio "
                      f"(model={block['model']}, hedge list {block['hedge']})", block=block)
    if tuple(unit_again.shape) == tuple(unit.shape) and not torch.equal(unit_again, unit):
        ctx.violation("Hedger.compute_hedge", "hedge_depends_on_call_history" + (f"_round{r}" if r else ""),
                      f"compute_hedge on unchanged data differs between consecutive calls "
                      f"(model={block['model']}, hedge list {block['hedge']})", block=block)
    if block.get("tile"):
        return pl, pf, unit, payoff
    costs = [h.cost for h in hl]
    N, H, T = spots.shape
    ctx.tick(2 * N, nontrivial=2 * int((unit[..., 1:] != unit[..., :-1]).any(-1).any(-1).sum()))
    if tuple(unit.shape) != (N, H, T):
        ctx.violation("Hedger.compute_hedge", "shape", f"hedge shape {tuple(unit.shape)} != {(N, H, T)}", block=block)
        return
    if tuple(pl.shape) != (N,) or tuple(pf.shape) != (N,):
        ctx.violation("Hedger.compute_pl", "shape", f"pl shape {tuple(pl.shape)}, portfolio {tuple(pf.shape)}", block=block)
        return
    sl, ul, zl = spots.tolist(), unit.tolist(), payoff.tolist()
    pll, pfl = pl.tolist(), pf.tolist()
    eps = torch.finfo(pl.dtype).eps
    for i in range(N):
        e_pf = pl_fraction(sl[i], ul[i], costs, None, True)
        e_pl = e_pf - Fraction(zl[i])
        scale = sum(abs(x) for row in ul[i] for x in row) * max(abs(x) for row in sl[i] for x in row) + abs(zl[i]) + 1
        tol = 0 if exact else 8 * H * T * eps * scale
        # the portfolio value does not involve the payoff: its rounding bound must not either
        tol_pf = 0 if exact else 8 * H * T * eps * (scale - abs(zl[i]))
        for name, got, exp in (("compute_pl", pll[i], e_pl), ("compute_portfolio", pfl[i], e_pf)):
            tol_n = tol if name == "compute_pl" else tol_pf
            if got != got or got in (float("inf"), float("-inf")):
                ok = False  # NaN / inf is never the wealth identity (seeded C01-27: 0 * inf on a zero quote)
            else:
                ok = (Fraction(got) == exp) if tol == 0 else abs(Fraction(got) - exp) <= tol_n
            if not ok:
                mini = dict(block)
                if r == 0 and not block.get("swap"):
                    base = block.get("rows")
                    mini["rows"] = [base[i] if base is not None else i]
                    mini["rounds"] = [0]
                zero_cost = any(c == 0 for c in costs) and any(c != 0 for c in costs)
                ctx.violation("Hedger." + name,
                              f"identity_{block['hedge']}" + ("_mixedcost" if zero_cost else "") + ("_multiplier" if block.get("multiplier") else "") + ("_listedself" if block.get("listed_self") else "") + ("_subclass" if block.get("subclass") else "") + (f"_round{r}" if r else ""),
                              f"{name} != wealth identity on hedge list {block['hedge']} "
                              f"(model={block['model']}, derivative={block['derivative']}, costs={costs}, "
                              f"after {r} re-simulation(s))",
                              observed=got, expected=float(exp), block=mini)
    # deprecated compute_pnl = simulate + compute_pl: same identity on the (scripted) simulated paths
    if block.get("pnl") and r == 0:
        prim = list(deriv.underliers())[0]
        script = {n: b.clone() for n, b in prim.named_buffers()}
        sim = market.ScriptedSimulate(prim, [script])
        try:
            with torch.no_grad():
                pnl = hedger.compute_pnl(deriv, hedge=hedge, n_paths=N, init_state=(1.25,))
        finally:
            sim.remove()
        ctx.tick(N)
        if sim.calls != 1 or sim.log[0]["n_paths"] != N or sim.log[0]["init_state"] != (1.25,):
            ctx.violation("Hedger.compute_pnl", "simulate_arguments", f"simulate log {sim.log}", block=block)
        if not torch.equal(pnl, pl):
            ctx.violation("Hedger.compute_pnl", f"identity_{block['hedge']}",
                          "compute_pnl != compute_pl on the same simulated paths",
                          observed=pnl[:4].tolist(), expected=pl[:4].tolist(), block=block)
    ctx.outcome((block["hedge"], block["model"], r, round(float(pl.sum()), 9)))
    if len(ctx.samples) < 5 and block["hedge"] != "stock":
        i = N // 3
        ctx.sample({"family": "hedger_pl", "block": {k: v for k, v in block.items() if k != "rows"}, "path": i,
                    "round": r, "spots": sl[i], "hedge": ul[i], "costs": costs, "payoff": zl[i],
                    "compute_pl": pll[i], "reference": float(pl_fraction(sl[i], ul[i], costs, zl[i], True))})


@family
def hedger_large(ctx, block):
    """Path counts far above any internal block size (and no multiple of one): the enumerated paths repeated
    cyclically.  P&L, portfolio value and hedge of path i are those of the same path in the small world
    (a per-path function cannot depend on the batch), and the small world is decided by hedger_pl."""
    small = dict(block)
    tile = small.pop("tile")
    res = []
    for b in (small, block):
        hedger, deriv, hedge, _ = build_world(b)
        with torch.no_grad():
            res.append((hedger.compute_pl(deriv, hedge=hedge), hedger.compute_portfolio(deriv, hedge=hedge),
                        hedger.compute_hedge(deriv, hedge=hedge)))
    n = res[0][0].size(0)
    idx = torch.arange(tile) % n
    exact = block["model"] in ("linear", "linear_prev", "naked", "passthrough") and block["dtype"] == "float64"
    ctx.tick(2 * tile, nontrivial=2 * tile)
    for name, a, b in zip(("compute_pl", "compute_portfolio", "compute_hedge"), res[0], res[1]):
        if tuple(b.shape) != (tile,) + tuple(a.shape[1:]):
            ctx.violation("Hedger." + name, "shape_largeN", f"shape {tuple(b.shape)} for {tile} paths", block=block)
            continue
        ref = a[idx]
        bad = (b != ref) if exact else ((b - ref).abs() > 1e-9 * (1 + ref.abs()))
        if bool(bad.any()):
            rows = bad.reshape(tile, -1).any(-1).nonzero().flatten()
            ctx.violation("Hedger." + name, "path_depends_on_batch_largeN",
                          f"{name} of {len(rows)} of {tile} paths differs from the same path evaluated in a batch of {n} "
                          f"(first row {int(rows[0])}; model={block['model']}, hedge list {block['hedge']})",
                          observed=b[rows[0]].flatten()[:4].tolist(), expected=ref[rows[0]].flatten()[:4].tolist(), block=block)
    ctx.outcome(("large", block["model"], block["hedge"], round(float(res[1][0].sum()), 6)))


# ----------------------------------------------------------------------------

def run(ctx):
    ctx.rule("pl_grid/pl_frac: every assignment of (spot,unit) symbols to every (instrument,step) cell "
             "x every payoff symbol (full product, itertools order), x cost variants x first-cost flag "
             "x payoff given/absent x dtype x {pl, terminal_value}; non-trivial = prices move and position "
             "changes on the row (cost index observable).  hedger_pl: all |A|^T price paths x hedge lists x "
             "models x derivative kinds (x clauses on the hedged derivative, x a listed hedge whose price is "
             "negative on part of the grid, x re-simulation rounds); non-trivial = paths on which the hedge "
             "changes over time")
    ctx.assume("dyadic alphabets make every float operation of pl() exact, so the comparison is bitwise")
    As2, Au2 = [8, 12], [-4, 6]
    As3, Au3 = [8, 12, 6], [-4, 6, 0]
    Ap = [-3, 0, 16]
    extra = ctx.extra_symbol("spot", [4, 10, 14, 16, 20])
    extra_u = ctx.extra_symbol("unit", [-8, -2, 2, 8, 12])
    ctx.alphabet("spot/8", As3 + [extra])
    ctx.alphabet("unit/8", Au3 + [extra_u])
    ctx.alphabet("payoff/8", Ap)
    shapes = [(1, 2, As3 + [extra], Au3 + [extra_u]), (1, 3, As3, Au3), (2, 2, As3, Au3),
              (2, 3, As2, Au2), (3, 2, As2, Au2)]
    # negative prices (rates, swaps, spreads): |position change| * price is NOT |position change * price|
    shapes += [(1, 2, [8, -4, 12], Au3), (1, 3, [8, -4], Au3), (2, 2, [8, -4], Au2)]
    # a quote of exactly zero at the first, an inner and the last step (an option listed at intrinsic value, a
    # rate at 0): gains written as value * return are 0 * inf there (seeded C01-27)
    shapes += [(1, 2, [0, 8, -4], Au3), (1, 3, [8, 0], Au3), (2, 2, [0, 12], Au2)]
    if ctx.thorough:
        shapes += [(1, 4, As3 + [extra], Au3 + [extra_u]), (1, 5, As3, Au3), (2, 4, As2, Au2),
                   (3, 3, As2, Au2), (2, 3, As3, Au3), (4, 2, As2, Au2), (1, 8, As2, Au2)]
    for (H, T, As, Au) in shapes:
        cost_variants = [None, [0] * H, [1] * H, [1 + h for h in range(H)]]
        if H > 1:
            cost_variants.append([0] * (H - 1) + [2])
        for cost, first, pay, dtype, fn in itertools.product(
                cost_variants, [None, True, False], [None, Ap], ["float64", "float32"], ["pl", "terminal_value"]):
            if cost is None and first is False:
                continue
            block = {"H": H, "T": T, "As": As, "Au": Au, "Ap": pay, "cost": cost, "first": first,
                     "dtype": dtype, "fn": fn}
            ctx.run("pl_grid", block)
    # N far above any internal block size
    for fn, dtype, cost, pay in [("pl", "float64", [1, 2], Ap), ("terminal_value", "float32", [1, 2], None), ("pl", "float32", None, Ap)]:
        ctx.run("pl_grid", {"H": 2, "T": 3, "As": As2, "Au": Au2, "Ap": pay, "cost": cost, "first": None,
                            "dtype": dtype, "fn": fn, "tile": 300007})
    # N = 1
    for H, T in [(1, 2), (2, 3)]:
        case = {"spot": [[8 + 2 * t + h for t in range(T)] for h in range(H)],
                "unit": [[(-1) ** t * (3 + h) for t in range(T)] for h in range(H)], "payoff": 5}
        for first in (True, False):
            ctx.run("pl_grid", {"H": H, "T": T, "cost": [2] * H, "first": first, "dtype": "float64",
                                "fn": "pl", "cases": [case]})
    frac_shapes = [(1, 2, As3, Au3), (1, 3, As3, Au3), (2, 2, As2, Au2)]
    if ctx.thorough:
        frac_shapes += [(2, 2, As3, Au3), (2, 3, As2, Au2), (3, 2, As2, Au2)]
    for (H, T, As, Au) in frac_shapes:
        for cost, first in [(None, None), ([1 + h for h in range(H)], True), ([1 + h for h in range(H)], False)]:
            ctx.run("pl_frac", {"H": H, "T": T, "As": As, "Au": Au, "Ap": [-3, 16], "cost": cost,
                                "first": first, "dtype": "float64", "fn": "pl"})
    # hedger level
    A = [6, 8, 10, 12]
    ctx.alphabet("hedger spot/8", A)
    for hv, mv, dtype in [("default", "linear", "float64"), ("stock+listed", "linear_prev", "float64"),
                          ("stock", "bs", "float64"), ("stock+stock2", "linear", "float32"), ("stock", "passthrough", "float64")]:
        ctx.run("hedger_large", {"T": 3, "A": A, "costs": [1, 3, 2], "hedge": hv, "model": mv, "derivative": "european",
                                 "dtype": dtype, "wseed": ctx.seed % 7, "tile": 140003})
    for T, hv, dk, dtype in itertools.product([3, 4], ["default", "stock", "listed"], ["european", "lookback"], ["float64", "float32"]):
        for feat in ("underlier_spot",):
            ctx.run("hedger_pl", {"T": T, "A": A, "costs": [1, 3, 2], "hedge": hv, "model": "passthrough", "feature": feat,
                                  "derivative": dk, "dtype": dtype, "rounds": [0, 1]})
    Ts = [3, 4] if ctx.quick else [3, 4, 5]
    derivs = ["european", "lookback", "european_binary", "american_binary", "forward_start", "variance_swap"]
    for T, hv, mv, dk, dtype in itertools.product(
            Ts, ["default", "stock", "stock+stock2", "stock+listed", "listed+stock", "listed"],
            ["linear", "linear_prev", "bs", "ww", "naked"], derivs, ["float64", "float32"]):
        if ctx.quick and dtype == "float32" and (dk not in ("european",) or T != 3):
            continue
        if ctx.quick and T == 4 and dk not in ("european", "lookback"):
            continue
        block = {"T": T, "A": A, "costs": [1, 3, 2], "hedge": hv, "model": mv, "derivative": dk,
                 "dtype": dtype, "wseed": ctx.seed % 7, "pnl": T == 3, "rounds": [0, 1, 2]}
        if not hedger_blocks_ok(block):
            continue
        if dtype == "float32" and mv in ("bs", "ww"):
            continue  # transcendental models are compared in float64 only
        ctx.run("hedger_pl", block)
        if T == 3 and dtype == "float64" and mv in ("linear", "linear_prev", "bs") and dk in ("european", "lookback"):
            b4 = dict(block)
            b4["clauses"] = True
            b4["rounds"] = [0, 1]
            ctx.run("hedger_pl", b4)
            if "listed" in hv:
                b5 = dict(block)
                b5["pricer"] = "signed"
                b5["rounds"] = [0, 1]
                ctx.run("hedger_pl", b5)
        if T == 3 and dtype == "float64" and mv in ("linear", "linear_prev") and (dk == "european" or ctx.thorough):
            for cv in ([0, 3, 2], [1, 0, 0], [0, 0, 2], [0, 0, 0]):
                b3 = dict(block)
                b3["costs"] = cv
                b3["rounds"] = [0]
                ctx.run("hedger_pl", b3)
        if dk in ("european", "european_binary") and mv in ("linear", "bs") and hv in ("stock", "stock+listed"):
            b2 = dict(block)
            b2["call"] = False
            ctx.run("hedger_pl", b2)
        if T == 3 and dtype == "float64" and dk in ("european", "lookback", "variance_swap") and mv in ("linear", "linear_prev") and hv in ("default", "stock", "stock+stock2"):
            b9 = dict(block)
            b9["listed_self"] = True
            b9["rounds"] = [0, 1]
            b9["pnl"] = False
            ctx.run("hedger_pl", b9)
        if T == 3 and dk == "european" and mv in ("linear", "linear_prev") and hv in ("default", "stock+listed"):
            b6 = dict(block)
            b6["multiplier"] = 20 if dtype == "float32" else 45
            b6["rounds"] = [0]
            b6["pnl"] = False
            ctx.run("hedger_pl", b6)
        # user subclass overriding the public compute_hedge: outside the property's quantifier (built-in
        # classes); a refactoring that routes compute_pl through a private helper would be flagged.  Off by
        # default, kept as an optional diagnostic (DESIGN section 12).
        if USER_SUBCLASS_WORLDS and T == 3 and dk == "european" and mv in ("linear", "linear_prev", "bs") and hv in ("default", "stock+listed", "stock+stock2"):
            b8 = dict(block)
            b8["subclass"] = True
            b8["rounds"] = [0, 1]
            ctx.run("hedger_pl", b8)
        if T == 3 and hv == "default" and dtype == "float64" and mv in ("linear", "linear_prev", "bs") and dk in ("european", "lookback"):
            b7 = dict(block)
            b7["swap"] = True
            b7["rounds"] = [0]
            b7["pnl"] = False
            ctx.run("hedger_pl", b7)

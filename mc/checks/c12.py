"""C12 - payoffs equal their contractual definitions and ordering.  Engine: grid (path-exhaustive).

Families
  fn_payoff          pfhedge.nn.functional.{european,lookback,american_binary,european_binary}_payoff
                     on ALL paths of length T over a dyadic alphabet x strikes (ties, between symbols,
                     outside the range) x call/put x input layouts ((N,T), (a,N/a,T), single (T,));
                     oracle = per-path Fractions (payoff_ref), bitwise.
  cls_payoff         the four option classes with scripted buffers (payoff(): one entry per path)
                     + the orderings lookback >= european >= 0, american binary >= european binary,
                     call - put = S_T - K evaluated on the implementation's own outputs.
  forward_start_fn   european_forward_start_payoff over all (start_index, end_index) pairs incl. negative.
  forward_start_cls  EuropeanForwardStartOption over (start, dt) pairs: start = (k + f/64) dt, and the natural
                     on-grid inputs dt = 1/n (n = 250, 100, 50, 365, 256), start = k/n and k*dt for every k below
                     the path length (80; paths = constant path + all one-time deviations).  Start index = k when
                     the exact quotient of the two floats is within 4 ulp of the integer k, else the floor.
  nondyadic          float64 paths over a non-dyadic alphabet containing the strikes (0.9, 1.1, 1.3, ...), all
                     payoffs incl. forward start, functions and classes; oracle = the contract in python
                     (IEEE double) arithmetic, bitwise.
  variance_swap      VarianceSwap.payoff and realized_variance - strike on all paths, T >= 2 (mpmath oracle).
  binary_ulp         binaries on prices K -+ 1, 2, 4 ulp (nextafter chains), float32/float64, dyadic and
                     non-dyadic K; exact comparison; american >= european on the outputs.
  reuse              every history of <= 2 (thorough 3) mutations on ONE derivative object (strike, call flag,
                     start, maturity, added clause, re-registered paths, paths overwritten in place) with
                     payoff() evaluated after every step against the contract for the current state.
  clauses            all sequences of <= 3 clauses from {x2, +1, cap 1/2, knock-out on the path maximum}
                     under every assignment of clause names (so registration order != name order), on
                     all paths, for the option classes; oracle = fold in registration order.  One function
                     object per clause symbol (a repeated symbol registers the same object twice), also as
                     bound methods of one object and as fresh functions.
"""
from __future__ import annotations

import itertools
from fractions import Fraction

import torch

from mc.core import market
from mc.models import payoff_ref

FAMILIES = {}
SC = 16  # alphabets are integers / 16
DT = {"float32": torch.float32, "float64": torch.float64}
KINDS = payoff_ref.KINDS
CLASSNAME = {"european": "EuropeanOption", "lookback": "LookbackOption",
             "european_binary": "EuropeanBinaryOption", "american_binary": "AmericanBinaryOption"}
CLAUSE_ALPHABET = ("double", "plus1", "cap", "knockout")
CLAUSE_NAMES = ("ca", "cb", "cc", "cd")


def family(fn):
    FAMILIES[fn.__name__] = fn
    return fn


# ---------------------------------------------------------------------------
# helpers
# ---------------------------------------------------------------------------

def _paths16(block):
    if "paths16" in block:
        return [list(p) for p in block["paths16"]]
    if "onehot" in block:
        # the constant path and every path that deviates from it at exactly one time, for every deviating
        # symbol: the price at each single time index is observable in S_T / S_index
        T, base = block["T"], block["onehot"]["base16"]
        out = [[base] * T]
        for dev in block["onehot"]["dev16"]:
            for j in range(T):
                p = [base] * T
                p[j] = dev
                out.append(p)
        return out
    return [list(p) for p in itertools.product(block["A16"], repeat=block["T"])]


def _tensor(paths16, dtype):
    return torch.tensor(paths16, dtype=torch.int64).to(dtype) / SC


def _fr(paths16):
    return [[Fraction(v, SC) for v in p] for p in paths16]


def _fn(kind):
    import pfhedge.nn.functional as F
    return {"european": F.european_payoff, "lookback": F.lookback_payoff,
            "european_binary": F.european_binary_payoff,
            "american_binary": F.american_binary_payoff}[kind]


def _rel(a, b):
    return "<" if a < b else ("=" if a == b else ">")


def classify(kind, call, path16, k16):
    """Class of a failing (kind, side, path, strike): which comparison outcome the contract's
    deciding price has with the strike, and whether that price is the terminal one."""
    side = "call" if call else "put"
    last = path16[-1]
    if kind in ("european", "european_binary"):
        return f"{side}:S_T{_rel(last, k16)}K"
    ext = max(path16) if call else min(path16)
    where = "terminal" if ext == last else "interior"
    name = "max" if call else "min"
    return f"{side}:{name}{_rel(ext, k16)}K:{where}_extreme"


def _nontrivial(path16, k16):
    """A path is non-trivial for a strike when a tie with the strike occurs or an extreme is interior
    (then terminal/extreme, >=/> and max/min variants of the contracts differ)."""
    return (k16 in path16) or max(path16) != path16[-1] or min(path16) != path16[-1]


def _exact_eq(out_list, exp_list):
    """Indices where float outputs differ from exact rational expectations."""
    return [i for i, (o, e) in enumerate(zip(out_list, exp_list)) if o != o or Fraction(o) != e]


_ORACLE_CACHE = {}


def _oracle(kind, call, k16, paths16, key):
    ck = (kind, call, k16, key)
    if key is not None and ck in _ORACLE_CACHE:
        return _ORACLE_CACHE[ck]
    K = Fraction(k16, SC)
    exp = [payoff_ref.payoff(kind, p, K, call) for p in _fr(paths16)]
    if key is not None:
        if len(_ORACLE_CACHE) > 400:
            _ORACLE_CACHE.clear()
        _ORACLE_CACHE[ck] = exp
    return exp


def _key(block):
    return None if "paths16" in block else (tuple(block["A16"]), block["T"])


# ---------------------------------------------------------------------------
# functional payoffs
# ---------------------------------------------------------------------------

@family
def fn_payoff(ctx, block):
    kind = block["kind"]
    dtype = DT[block["dtype"]]
    paths = _paths16(block)
    N, T = len(paths), len(paths[0])
    x = _tensor(paths, dtype)
    f = _fn(kind)
    site = f"functional.{kind}_payoff"
    n_sym = len(block["A16"]) if "A16" in block else 1
    for k16 in block["strikes16"]:
        strike = k16 / SC
        nt = sum(1 for p in paths if _nontrivial(p, k16))
        for call in block["calls"]:
            exp = _oracle(kind, call, k16, paths, _key(block))
            for layout in block["layouts"]:
                if layout == "flat":
                    out = f(x, call=call, strike=strike)
                    want_shape = (N,)
                elif layout == "grid":
                    g = n_sym if (N % n_sym == 0 and N > n_sym) else 1
                    out = f(x.reshape(g, N // g, T), call=call, strike=strike)
                    want_shape = (g, N // g)
                elif layout == "single":
                    outs = [f(x[i], call=call, strike=strike) for i in range(N)]
                    shapes = {tuple(o.shape) for o in outs}
                    out = torch.stack([o.reshape(()) for o in outs]) if shapes == {()} else outs[0]
                    want_shape = (N,) if shapes == {()} else ()
                elif layout == "defaults":
                    if not (call and k16 == SC):
                        continue
                    out = f(x)
                    want_shape = (N,)
                else:
                    raise KeyError(layout)
                ctx.tick(N, nontrivial=nt)
                if tuple(out.shape) != want_shape:
                    ctx.violation(site, f"shape:{layout}", f"output shape {tuple(out.shape)} for input layout "
                                  f"{layout} with {N} paths of length {T}", observed=list(out.shape),
                                  expected=list(want_shape), block=_mini_fn(block, kind, paths[:1], k16, call, layout))
                    continue
                ol = out.reshape(-1).to(torch.float64).tolist()
                bad = _exact_eq(ol, exp)
                for i in bad:
                    cls = classify(kind, call, paths[i], k16)
                    ctx.violation(site, cls, f"{kind} {'call' if call else 'put'} payoff differs from the contract "
                                  f"(path/16={paths[i]}, strike/16={k16}, {block['dtype']}, layout {layout})",
                                  observed=ol[i], expected=float(exp[i]),
                                  block=_mini_fn(block, kind, [paths[i]], k16, call, layout))
                if N > 2:
                    ctx.outcome((kind, call, k16, round(sum(ol), 6)))
    if len(ctx.samples) < 2 and T == 3 and kind in ("lookback", "american_binary") and block["dtype"] == "float64":
        i = next(j for j, p in enumerate(paths) if max(p) != p[-1] and min(p) != p[-1] and p[0] != p[1])
        k16 = block["strikes16"][1]
        ctx.sample({"family": "fn_payoff", "kind": kind, "path": [v / SC for v in paths[i]], "strike": k16 / SC,
                    "call": False, "implementation": float(f(x[i], call=False, strike=k16 / SC)),
                    "reference": float(_oracle(kind, False, k16, [paths[i]], None)[0])})


def _mini_fn(block, kind, paths, k16, call, layout):
    return {"kind": kind, "dtype": block["dtype"], "paths16": paths, "strikes16": [k16], "calls": [call],
            "layouts": [layout]}


# ---------------------------------------------------------------------------
# derivative classes + orderings
# ---------------------------------------------------------------------------

def _derivative(kind, stock, T, k16, call, explicit=True):
    """explicit=False leaves call=True / strike=1.0 to the constructor defaults."""
    kw = {}
    if explicit or not call:
        kw["call"] = call
    if explicit or k16 != SC:
        kw["strike"] = k16 / SC
    return market.derivative(kind, stock, T=T, **kw)


@family
def cls_payoff(ctx, block):
    dtype = DT[block["dtype"]]
    paths = _paths16(block)
    N, T = len(paths), len(paths[0])
    x = _tensor(paths, dtype)
    kinds = block.get("kinds", list(KINDS))
    calls = block.get("calls", [True, False])
    for k16 in block["strikes16"]:
        stock = market.primary("brownian", dtype=dtype)
        market.set_buffers(stock, spot=x)
        nt = sum(1 for p in paths if _nontrivial(p, k16))
        res = {}
        for kind in kinds:
            for call in calls:
                site = CLASSNAME[kind] + ".payoff"
                d = _derivative(kind, stock, T, k16, call, explicit=block.get("explicit", True))
                out = d.payoff()
                ctx.tick(N, nontrivial=nt)
                mini = {"dtype": block["dtype"], "paths16": None, "strikes16": [k16], "kinds": [kind],
                        "calls": [call], "explicit": block.get("explicit", True)}
                if tuple(out.shape) != (N,):
                    mini["paths16"] = paths[:1] if N > 1 else paths
                    ctx.violation(site, "shape", f"payoff shape {tuple(out.shape)} for {N} paths",
                                  observed=list(out.shape), expected=[N], block=mini)
                    continue
                exp = _oracle(kind, call, k16, paths, _key(block))
                ol = out.to(torch.float64).tolist()
                res[(kind, call)] = ol
                for i in _exact_eq(ol, exp):
                    cls = classify(kind, call, paths[i], k16)
                    m = dict(mini)
                    m["paths16"] = [paths[i]]
                    ctx.violation(site, cls, f"{CLASSNAME[kind]}({'call' if call else 'put'}, strike={k16 / SC}).payoff() "
                                  f"differs from the contract on path/16={paths[i]} ({block['dtype']})",
                                  observed=ol[i], expected=float(exp[i]), block=m)
                if N > 2:
                    ctx.outcome((kind, call, k16, round(sum(ol), 6)))
        # orderings on the implementation's own outputs
        for call in calls:
            side = "call" if call else "put"
            pairs = [("lookback", "european", "LookbackOption.payoff", f"order:lookback<european:{side}"),
                     ("american_binary", "european_binary", "AmericanBinaryOption.payoff",
                      f"order:american<european_binary:{side}")]
            for hi, lo, site, cls in pairs:
                if (hi, call) in res and (lo, call) in res:
                    ctx.add("relations", N)
                    for i in range(N):
                        if not res[(hi, call)][i] >= res[(lo, call)][i]:
                            ctx.violation(site, cls, f"{hi} {side} payoff {res[(hi, call)][i]} < {lo} {side} payoff "
                                          f"{res[(lo, call)][i]} on path/16={paths[i]}, strike/16={k16}",
                                          observed=res[(hi, call)][i], expected=f">= {res[(lo, call)][i]}",
                                          block={"dtype": block["dtype"], "paths16": [paths[i]], "strikes16": [k16],
                                                 "kinds": [hi, lo], "calls": [call]})
                            break
            if ("european", call) in res:
                ctx.add("relations", N)
                for i in range(N):
                    if not res[("european", call)][i] >= 0:
                        ctx.violation("EuropeanOption.payoff", f"order:negative:{side}", "negative European payoff",
                                      observed=res[("european", call)][i], expected=">= 0",
                                      block={"dtype": block["dtype"], "paths16": [paths[i]], "strikes16": [k16],
                                             "kinds": ["european"], "calls": [call]})
                        break
        if ("european", True) in res and ("european", False) in res:
            ctx.add("relations", N)
            for i in range(N):
                lhs = Fraction(res[("european", True)][i]) - Fraction(res[("european", False)][i])
                if lhs != Fraction(paths[i][-1] - k16, SC):
                    ctx.violation("EuropeanOption.payoff", "parity:call-put", "call - put != S_T - K",
                                  observed=float(lhs), expected=(paths[i][-1] - k16) / SC,
                                  block={"dtype": block["dtype"], "paths16": [paths[i]], "strikes16": [k16],
                                         "kinds": ["european"], "calls": [True, False]})
                    break


# ---------------------------------------------------------------------------
# non-dyadic prices and strikes, float64, IEEE-double oracle
# ---------------------------------------------------------------------------

def _float_oracle(kind, path, strike, call):
    """payoff_ref on python floats = IEEE double arithmetic: one subtraction (or one comparison) per
    payoff, which torch float64 performs identically - the comparison is bitwise."""
    return float(payoff_ref.payoff(kind, path, strike, call))


@family
def nondyadic(ctx, block):
    """float64 paths over a NON-dyadic alphabet that contains the strikes (0.9, 1.1, 1.3: not representable
    in float32).  Every option payoff is a single double subtraction / comparison of a path entry with the
    strike (max and min select entries exactly), and the forward start one division and one subtraction:
    the python-float evaluation of the contract is bit-for-bit the float64 result, so a strike that
    went through a narrower dtype shows at ties (binaries flip) and as ~2e-8 in the vanilla payoffs."""
    import pfhedge.instruments as I
    import pfhedge.nn.functional as F
    if "paths" in block:
        paths = [list(p) for p in block["paths"]]
    else:
        paths = [list(p) for p in itertools.product(block["A"], repeat=block["T"])]
    N, T = len(paths), len(paths[0])
    x = torch.tensor(paths, dtype=torch.float64)
    entries = block.get("entries", ["fn", "cls"])
    kinds = block.get("kinds", list(KINDS) + ["forward_start"])
    stock = market.primary("brownian", dtype=torch.float64)
    market.set_buffers(stock, spot=x)
    for strike in block["strikes"]:
        nt = sum(1 for p in paths if strike in p)
        for kind in kinds:
            for call in ([True] if kind == "forward_start" else block.get("calls", [True, False])):
                for entry in entries:
                    variants = [None]
                    if kind == "forward_start":
                        variants = block.get("start_indices") or list(range(T))
                    for si in variants:
                        if kind == "forward_start":
                            exp = [payoff_ref.forward_start_float(p, strike, si) for p in paths]
                            if entry == "fn":
                                site = "functional.european_forward_start_payoff"
                                out = F.european_forward_start_payoff(x, strike=strike, start_index=si)
                            else:
                                site = "EuropeanForwardStartOption.payoff"
                                out = I.EuropeanForwardStartOption(stock, strike=strike, maturity=(T - 1) * market.DT,
                                                                   start=si * market.DT).payoff()
                        else:
                            exp = [_float_oracle(kind, p, strike, call) for p in paths]
                            if entry == "fn":
                                site = f"functional.{kind}_payoff"
                                out = _fn(kind)(x, call=call, strike=strike)
                            else:
                                site = CLASSNAME[kind] + ".payoff"
                                out = market.derivative(kind, stock, T=T, call=call, strike=strike).payoff()
                        ctx.tick(N, nontrivial=nt)
                        mini = {"paths": None, "strikes": [strike], "kinds": [kind], "calls": [call],
                                "entries": [entry]}
                        if si is not None:
                            mini["start_indices"] = [si]
                        if tuple(out.shape) != (N,) or out.dtype != torch.float64:
                            mini["paths"] = paths[:1]
                            ctx.violation(site, "nondyadic:shape_or_dtype", f"shape {tuple(out.shape)}, dtype {out.dtype}",
                                          observed=[list(out.shape), str(out.dtype)], expected=[[N], "torch.float64"],
                                          block=mini)
                            continue
                        ol = out.tolist()
                        for i in range(N):
                            if not ol[i] == exp[i]:
                                if kind == "forward_start":
                                    r = paths[i][-1] / paths[i][si]
                                    cls = f"nondyadic:ratio{_rel(r, strike)}K"
                                else:
                                    cls = "nondyadic:" + classify(kind, call, paths[i], strike)
                                m = dict(mini)
                                m["paths"] = [paths[i]]
                                ctx.violation(site, cls, f"{kind} {'call' if call else 'put'} payoff on float64 path "
                                              f"{paths[i]} with strike {strike!r} is {ol[i]!r}; the contract in double "
                                              f"arithmetic gives {exp[i]!r}", observed=ol[i], expected=exp[i], block=m)
                        ctx.outcome((kind, call, entry, strike, si, sum(ol)))
    if len(ctx.samples) < 6 and T == 2 and "A" in block:
        k = block["strikes"][1]
        p = next(q for q in paths if q[-1] == k and q[0] != k)
        ctx.sample({"family": "nondyadic", "kind": "european_binary", "call": True, "path": p, "strike": k,
                    "implementation": float(F.european_binary_payoff(torch.tensor([p], dtype=torch.float64), strike=k)[0]),
                    "reference": _float_oracle("european_binary", p, k, True)})


# ---------------------------------------------------------------------------
# binaries within a few ulps of the strike
# ---------------------------------------------------------------------------

def ulp_symbols(K, dtype, steps=(1, 2, 4)):
    """K and its neighbours 1, 2 and 4 representable numbers below / above, as python floats (exact)."""
    k = torch.tensor(K, dtype=dtype)
    out = {0: k}
    for sign, target in ((-1, 0.0), (1, float("inf"))):
        cur = k
        for n in range(1, max(steps) + 1):
            cur = torch.nextafter(cur, torch.tensor(target, dtype=dtype))
            if n in steps:
                out[sign * n] = cur
    return {n: float(v) for n, v in sorted(out.items())}


@family
def binary_ulp(ctx, block):
    """'Reaches the strike' is an exact comparison: a terminal (extreme) price one representable number
    short of K has not reached it.  Alphabet = {K -+ 1, 2, 4 ulp, K, K/2, 2K}; K is representable in the dtype
    (dyadic, or the dtype's nearest number to 1.1 / 0.9 / 1.3), so the python-float strike equals the tensor
    entry and the oracle is the exact rational comparison.  All paths of length T; functions and classes;
    the ordering american >= european is evaluated on the implementation's outputs."""
    dtype = DT[block["dtype"]]
    K = block["K"]
    if float(torch.tensor(K, dtype=dtype)) != K:
        raise ValueError("K must be representable in the dtype")
    if "paths" in block:
        paths = [list(p) for p in block["paths"]]
        offs = None
    else:
        sym = ulp_symbols(K, dtype)
        A = list(sym.values()) + [K / 2, K * 2]
        paths = [list(p) for p in itertools.product(A, repeat=block["T"])]
    N, T = len(paths), len(paths[0])
    x = torch.tensor(paths, dtype=torch.float64).to(dtype)
    if x.to(torch.float64).tolist() != paths:
        raise ValueError("path symbols must be representable in the dtype")
    stock = market.primary("brownian", dtype=dtype)
    market.set_buffers(stock, spot=x)
    fr = [[Fraction(v) for v in p] for p in paths]
    KF = Fraction(K)
    near = sum(1 for p in paths if any(v != K and abs(v - K) <= 8 * torch.finfo(dtype).eps * abs(K) for v in p))
    res = {}
    for kind in ("european_binary", "american_binary"):
        for call in block.get("calls", [True, False]):
            exp = [payoff_ref.payoff(kind, p, KF, call) for p in fr]
            for entry in block.get("entries", ["fn", "cls"]):
                if entry == "fn":
                    site = f"functional.{kind}_payoff"
                    out = _fn(kind)(x, call=call, strike=K)
                else:
                    site = CLASSNAME[kind] + ".payoff"
                    out = market.derivative(kind, stock, T=T, call=call, strike=K).payoff()
                ctx.tick(N, nontrivial=near)
                ol = out.to(torch.float64).tolist()
                res[(kind, call, entry)] = ol
                for i in range(N):
                    if not (ol[i] == exp[i]):
                        p = paths[i]
                        ref = p[-1] if kind == "european_binary" else (max(p) if call else min(p))
                        side = "call" if call else "put"
                        gap = "at_K" if ref == K else ("within_4ulp_below_K" if K > ref >= K * (1 - 8 * torch.finfo(dtype).eps)
                                                       else ("within_4ulp_above_K" if K < ref <= K * (1 + 8 * torch.finfo(dtype).eps)
                                                             else "far_from_K"))
                        ctx.violation(site, f"ulp:{side}:deciding_price_{gap}",
                                      f"{kind} {side} with strike {K!r} ({block['dtype']}) on path {p} pays {ol[i]!r}; the "
                                      f"deciding price {ref!r} {'has' if exp[i] == 1 else 'has not'} reached the strike",
                                      observed=ol[i], expected=float(exp[i]),
                                      block={"dtype": block["dtype"], "K": K, "paths": [p], "calls": [call],
                                             "entries": [entry]})
                ctx.outcome((kind, call, entry, K, block["dtype"], sum(ol)))
    for call in block.get("calls", [True, False]):
        for entry in block.get("entries", ["fn", "cls"]):
            a, e = res.get(("american_binary", call, entry)), res.get(("european_binary", call, entry))
            if a is None or e is None:
                continue
            ctx.add("relations", N)
            for i in range(N):
                if not a[i] >= e[i]:
                    ctx.violation("AmericanBinaryOption.payoff" if entry == "cls" else "functional.american_binary_payoff",
                                  f"ulp:order:american<european_binary:{'call' if call else 'put'}",
                                  f"american binary pays {a[i]} < european binary {e[i]} on path {paths[i]}, strike {K!r}",
                                  observed=a[i], expected=f">= {e[i]}",
                                  block={"dtype": block["dtype"], "K": K, "paths": [paths[i]], "calls": [call],
                                         "entries": [entry]})
                    break


# ---------------------------------------------------------------------------
# forward start
# ---------------------------------------------------------------------------

_FS_CACHE = {}


def _fs_expected(paths, k16, idx, end):
    """[(exact payoff, ratio + K)] per path; memoised on the identity of the path list."""
    key = (id(paths), len(paths), k16, idx, end)
    hit = _FS_CACHE.get(key)
    if hit is not None and hit[0] is paths:
        return hit[1]
    K = Fraction(k16, SC)
    out = []
    for p in _fr(paths):
        e = payoff_ref.forward_start(p, K, idx, end)
        ratio = p[len(p) - 1 if end is None else end] / p[idx]
        out.append((e, float(ratio + K)))
    if len(_FS_CACHE) > 2000:
        _FS_CACHE.clear()
    _FS_CACHE[key] = (paths, out)
    return out


def _fs_bad(out, paths, k16, idx, end, dtype):
    """First path on which a forward-start payoff vector differs from the oracle, as (i, observed, expected),
    else None.  The ratio S_end/S_start is one correctly rounded division and the subtraction of the
    (dyadic) strike one more rounding:
    |error| <= eps/2 * ratio + eps/2 * |ratio - K| <= eps * (ratio + K)  -> tol = 2 eps (ratio + K)."""
    eps = torch.finfo(dtype).eps
    ol = out.to(torch.float64).tolist()
    for i, (e, scale) in enumerate(_fs_expected(paths, k16, idx, end)):
        if ol[i] != ol[i] or abs(Fraction(ol[i]) - e) > 2 * eps * scale:
            return i, ol[i], float(e)
    return None


def _fs_check(ctx, site, cls, out, paths, k16, idx, end, dtype, mini_of, what):
    bad = _fs_bad(out, paths, k16, idx, end, dtype)
    if bad is None:
        return True
    i, o, e = bad
    ctx.violation(site, cls, f"{what}: payoff differs from max(S_end/S_start - K, 0) on path/16={paths[i]}, "
                  f"strike/16={k16}", observed=o, expected=e, block=mini_of(paths[i]))
    return False


@family
def forward_start_fn(ctx, block):
    import pfhedge.nn.functional as F
    dtype = DT[block["dtype"]]
    paths = _paths16(block)
    N, T = len(paths), len(paths[0])
    x = _tensor(paths, dtype)
    site = "functional.european_forward_start_payoff"
    pairs = block.get("index_pairs")
    if pairs is None:
        pairs = [[s, e] for s in range(-T, T) for e in range(-T, T)] + [[None, None]]
    for k16 in block["strikes16"]:
        for s, e in pairs:
            def mini_of(path, s=s, e=e, k16=k16):
                return {"dtype": block["dtype"], "paths16": [path], "strikes16": [k16], "index_pairs": [[s, e]]}
            if s is None:
                out = F.european_forward_start_payoff(x, strike=k16 / SC)
                ms, me, cls = 0, None, "default_indices"
            else:
                out = F.european_forward_start_payoff(x, strike=k16 / SC, start_index=s, end_index=e)
                ms, me = s, e
                cls = f"start{'<0' if s < 0 else '>=0'}:end{'<0' if e < 0 else '>=0'}"
            nt = sum(1 for p in paths if p[ms] != p[0] or p[-1 if me is None else me] != p[-1]
                     or len(set(p)) > 1)
            ctx.tick(N, nontrivial=nt)
            if tuple(out.shape) != (N,):
                ctx.violation(site, "shape", f"shape {tuple(out.shape)}", observed=list(out.shape), expected=[N],
                              block=mini_of(paths[0]))
                continue
            _fs_check(ctx, site, cls, out, paths, k16, ms, me, dtype, mini_of,
                      f"start_index={s}, end_index={e}")
            ctx.outcome((k16, s, e, round(float(out.sum()), 9)))


def fs_pairs(T, dt_list, fracs64):
    """(start, dt, index, kind) pairs for paths of length T: start = (k + f/64) * dt in floating point,
    index and kind from payoff_ref.start_index (on the grid: k, also when the float quotient is only within
    rounding distance of k; between grid times: the floor).  Pairs of undecided kind are counted, not run."""
    out, skipped = [], 0
    for dt in dt_list:
        for k in range(T):
            for f in fracs64:
                start = (k + f / 64) * dt
                idx, kind = payoff_ref.start_index(start, dt)
                if idx is None:
                    skipped += 1
                    continue
                if idx > T - 1:
                    continue
                out.append((start, dt, idx, kind))
    return out, skipped


def fs_grid_pairs(T, ns):
    """Natural on-grid inputs: dt = 1/n, start = k/n and start = k*dt for every k < T."""
    out, skipped, seen = [], 0, set()
    for n in ns:
        dt = 1 / n
        for k in range(T):
            for start in (k / n, k * dt):
                if (start, dt) in seen:
                    continue
                seen.add((start, dt))
                idx, kind = payoff_ref.start_index(start, dt)
                if idx != k:
                    skipped += 1      # the model does not recognise the pair as k steps: not decided
                    continue
                out.append((start, dt, idx, kind))
    return out, skipped


def fs_class(start, dt, idx, kind, T, matches_previous_step):
    """Signature class of a wrong forward-start index, computed from the inputs (start, dt):
    where the start lies relative to the grid and, for on-grid starts whose quotient is not exactly
    representable, on which side of the integer the *float* quotient start/dt falls."""
    pos = "first" if idx == 0 else ("last" if idx == T - 1 else "middle")
    if kind == "between":
        return f"start_index:between_grid_times:{pos}"
    if kind == "on_grid_exact":
        return f"start_index:on_grid_exact:{pos}"
    fq = start / dt
    if fq < idx:
        # float(start/dt) = k - ulp although start is k steps: flooring the float quotient gives k-1
        return ("start_quotient_rounds_below_integer" if matches_previous_step
                else "start_quotient_rounds_below_integer:unexpected_index")
    if fq == idx:
        return f"start_index:on_grid_rounded:float_quotient_is_integer:{pos}"
    return f"start_index:on_grid_rounded:float_quotient_above_integer:{pos}"


@family
def forward_start_cls(ctx, block):
    import pfhedge.instruments as I
    dtype = DT[block["dtype"]]
    paths = _paths16(block)
    N, T = len(paths), len(paths[0])
    x = _tensor(paths, dtype)
    site = "EuropeanForwardStartOption.payoff"
    given_maturity = {}
    if "pairs" in block:
        pairs = []
        for pr in block["pairs"]:
            start, dt = pr[0], pr[1]
            idx, kind = payoff_ref.start_index(start, dt)
            if idx is not None:
                pairs.append((start, dt, idx, kind))
                if len(pr) > 2:
                    given_maturity[(start, dt)] = pr[2]
    elif "ns" in block:
        pairs, skipped = fs_grid_pairs(T, block["ns"])
        ctx.add("start_dt_pairs_undecided", skipped)
    else:
        pairs, skipped = fs_pairs(T, block["dts"], block["fracs64"])
        ctx.add("start_dt_pairs_undecided", skipped)
    moving = sum(1 for p in paths if len(set(p)) > 1)
    for start, dt, idx, kind in pairs:
        stock = market.primary("brownian", dtype=dtype, dt=dt)
        market.set_buffers(stock, spot=x)
        ctx.add("start_dt_pairs:" + kind, 1)
        # maturities: (T-1) dt (the grid ends at the maturity) and maturities M with a NON-integer M/dt whose
        # grid has the same ceil(M/dt)+1 = T points (the last grid time overshoots M); the start index does
        # not depend on the maturity
        if (start, dt) in given_maturity:
            maturities = [given_maturity[(start, dt)]]
        else:
            maturities = [(T - 1 - f / 64) * dt for f in block.get("mat_fracs64", [0])]
            maturities = [m for m in maturities if m >= start and m >= 0]
        for maturity, k16 in itertools.product(maturities, block["strikes16"]):
            overshoot = Fraction(maturity) / Fraction(dt) < T - 1 - Fraction(1, 2 ** 20)

            def mini_of(*ps, start=start, dt=dt, k16=k16, maturity=maturity):
                return {"dtype": block["dtype"], "paths16": list(ps), "strikes16": [k16],
                        "pairs": [[start, dt, maturity]]}
            d = I.EuropeanForwardStartOption(stock, strike=k16 / SC, maturity=maturity, start=start)
            ctx.tick(N, nontrivial=moving)
            try:
                out = d.payoff()
            except IndexError as e:
                ctx.violation(site, f"raises:IndexError:{kind}", f"start={start!r}, dt={dt!r}, T={T}: {e}",
                              observed="IndexError", expected=f"start index {idx}", block=mini_of(paths[0]))
                continue
            if tuple(out.shape) != (N,):
                ctx.violation(site, "shape", f"shape {tuple(out.shape)}", observed=list(out.shape), expected=[N],
                              block=mini_of(paths[0]))
                continue
            bad = _fs_bad(out, paths, k16, idx, None, dtype)
            if bad is not None:
                i, o, e = bad
                # does the output equal the payoff struck one step before the start time, on every path?
                # (a path refuting that is kept in the replay block so that the class is reproducible)
                w = _fs_bad(out, paths, k16, idx - 1, None, dtype) if idx >= 1 else (i, None, None)
                prev_ok = w is None
                witness = [] if (w is None or w[0] == i) else [paths[w[0]]]
                cls = fs_class(start, dt, idx, kind, T, prev_ok) + (":grid_overshoots_maturity" if overshoot else "")
                ctx.violation(site, cls, f"maturity={maturity!r}, start={start!r}, dt={dt!r} (exact quotient {float(Fraction(start) / Fraction(dt))!r}"
                              f", float quotient {start / dt!r}, contractual start index {idx}): payoff differs from "
                              f"max(S_T/S_start - K, 0) on path/16={paths[i]}, strike/16={k16}"
                              + (" - the price one step before the start time was used" if prev_ok else ""),
                              observed=o, expected=e, block=mini_of(paths[i], *witness))
            ctx.outcome((start, dt, k16, round(float(out.sum()), 9)))
    if len(ctx.samples) < 4 and pairs and T == 4 and block["dtype"] == "float64" and "ns" not in block:
        start, dt, idx, kind = pairs[len(pairs) // 2 + len(ctx.samples)]
        ctx.sample({"family": "forward_start_cls", "start": start, "dt": dt, "start/dt": start / dt,
                    "reference_start_index": idx, "kind": kind, "T": T})


# ---------------------------------------------------------------------------
# variance swap
# ---------------------------------------------------------------------------

@family
def variance_swap(ctx, block):
    """Tolerance (derived): value v = sum r_i^2 / (n dt), r_i = log S_{i+1} - log S_i.  Each float
    logarithm carries <= 1 ulp (eps |log S|), the difference adds eps |r|/2, so
    |err r_i| <= eps (|l_i| + |l_{i+1}| + |r_i|); squaring gives 2 |r_i| err + eps r_i^2; the mean, the
    division by dt (dt rounded to the dtype when it is a python float) and the subtraction of the strike
    add (n + 3) eps v + eps |K|.  With scale = sum (|l_i|+|l_{i+1}|+|r_i|) |r_i| / (n dt) from the model:
    tol = eps (2 scale + (n + 4) v + 2 |K|), used with a safety factor 2."""
    import mpmath as mp
    import pfhedge.instruments as I
    import pfhedge.nn.functional as F
    dtype = DT[block["dtype"]]
    eps = torch.finfo(dtype).eps
    paths = _paths16(block)
    N, T = len(paths), len(paths[0])
    x = _tensor(paths, dtype)
    frp = _fr(paths)
    for dt in block["dts"]:
        ref = [payoff_ref.realized_variance(p, dt) for p in frp]
        stock = market.primary("brownian", dtype=dtype, dt=dt)
        market.set_buffers(stock, spot=x)
        for strike in block["strikes"]:
            d = I.VarianceSwap(stock, strike=strike, maturity=(T - 1) * dt)
            outs = {"VarianceSwap.payoff": d.payoff(),
                    "functional.realized_variance": F.realized_variance(x, dt=dt) - strike}
            if strike == 0.04 and T == 21 and dt == 1 / 250:
                outs["VarianceSwap.payoff"] = I.VarianceSwap(stock).payoff()
            for site, out in outs.items():
                ctx.tick(N, nontrivial=sum(1 for p in paths if len(set(p)) > 1))

                def mini_of(path):
                    return {"dtype": block["dtype"], "paths16": [path], "strikes": [strike], "dts": [dt]}
                if tuple(out.shape) != (N,):
                    ctx.violation(site, "shape", f"shape {tuple(out.shape)}", observed=list(out.shape),
                                  expected=[N], block=mini_of(paths[0]))
                    continue
                ol = out.to(torch.float64).tolist()
                for i in range(N):
                    v, scale = ref[i]
                    e = v - mp.mpf(strike)
                    tol = 2 * eps * (2 * scale + (T + 3) * v + 2 * abs(strike))
                    if ol[i] != ol[i] or abs(mp.mpf(ol[i]) - e) > tol:
                        const = len(set(paths[i])) == 1
                        ctx.violation(site, "constant_path" if const else f"moving_path:T={'2' if T == 2 else '>2'}",
                                      f"payoff != annualised mean squared log-return - strike on path/16={paths[i]}, "
                                      f"dt={dt!r}, strike={strike}", observed=ol[i], expected=float(e),
                                      block=mini_of(paths[i]))
                        break
                ctx.outcome((site, dt, strike, round(sum(ol), 6)))
    if len(ctx.samples) < 5 and T == 3 and N > 4:
        i = N // 3
        dt = block["dts"][0]
        ctx.sample({"family": "variance_swap", "path": [v / SC for v in paths[i]], "dt": dt, "strike": 0.04,
                    "reference": float(payoff_ref.realized_variance(frp[i], dt)[0] - mp.mpf(0.04))})


# ---------------------------------------------------------------------------
# clauses
# ---------------------------------------------------------------------------

def _real_clause(name, barrier):
    if name == "double":
        return lambda d, p: p * 2
    if name == "plus1":
        return lambda d, p: p + 1
    if name == "cap":
        return lambda d, p: p.clamp(max=0.5)
    if name == "knockout":
        def knockout(d, p):
            top = d.ul().spot.max(-1).values
            return p.where(top < barrier, torch.zeros_like(p))
        return knockout
    raise KeyError(name)


class _ClauseBox:
    """The clause alphabet as methods of ONE object: each registration uses a bound method of the same
    instance (bound methods of one object compare and hash equal)."""

    def __init__(self, barrier):
        self.barrier = barrier

    def double(self, d, p):
        return p * 2

    def plus1(self, d, p):
        return p + 1

    def cap(self, d, p):
        return p.clamp(max=0.5)

    def knockout(self, d, p):
        top = d.ul().spot.max(-1).values
        return p.where(top < self.barrier, torch.zeros_like(p))


def clause_supplier(style, barrier):
    """name -> callable to register.  'function': ONE function object per clause symbol, so a sequence such
    as [x2, +1, x2] registers the *same* object under two names; 'bound_method': bound methods of one
    object; 'fresh': a new function object per registration."""
    if style == "function":
        table = {n: _real_clause(n, barrier) for n in CLAUSE_ALPHABET}
        return lambda n: table[n]
    if style == "bound_method":
        box = _ClauseBox(barrier)
        return lambda n: getattr(box, n)
    if style == "fresh":
        return lambda n: _real_clause(n, barrier)
    raise KeyError(style)


def clause_programs(max_len=3):
    """Every clause sequence of length <= max_len, each under every injective assignment of the
    names ca < cb < cc (< cd) to its positions (registration order vs alphabetical order of the names)."""
    progs = []
    for n in range(max_len + 1):
        for seq in itertools.product(CLAUSE_ALPHABET, repeat=n):
            for names in itertools.permutations(CLAUSE_NAMES[:n], n):
                progs.append({"seq": list(seq), "names": list(names)})
    return progs


@family
def clauses(ctx, block):
    dtype = DT[block["dtype"]]
    paths = _paths16(block)
    N, T = len(paths), len(paths[0])
    x = _tensor(paths, dtype)
    frp = _fr(paths)
    kind, call, k16, b16 = block["kind"], block["call"], block["strike16"], block["barrier16"]
    barrier = Fraction(b16, SC)
    site = "BaseDerivative.payoff"
    progs = block.get("programs") or clause_programs(block.get("max_len", 3))
    stock = market.primary("brownian", dtype=dtype)
    market.set_buffers(stock, spot=x)
    base = _oracle(kind, call, k16, paths, _key(block))
    style = block.get("callable", "function")
    supply = clause_supplier(style, b16 / SC)
    for prog in progs:
        seq, names = prog["seq"], prog["names"]
        d = _derivative(kind, stock, T, k16, call)
        for nm, cl in zip(names, seq):
            d.add_clause(nm, supply(cl))
        repeated = "repeated_callable" if len(set(seq)) < len(seq) and style != "fresh" else "distinct_callables"
        out = d.payoff()
        exp = [payoff_ref.fold_clauses(frp[i], base[i], seq, barrier) for i in range(N)]
        rev = [payoff_ref.fold_clauses(frp[i], base[i], seq[::-1], barrier) for i in range(N)]
        ctx.tick(N, nontrivial=sum(1 for a, b in zip(exp, rev) if a != b))

        def mini_of(path):
            return {"dtype": block["dtype"], "paths16": [path], "kind": kind, "call": call, "strike16": k16,
                    "barrier16": b16, "programs": [prog], "callable": style}
        if tuple(out.shape) != (N,):
            ctx.violation(site, "shape", f"shape {tuple(out.shape)}", observed=list(out.shape), expected=[N],
                          block=mini_of(paths[0]))
            continue
        registered = [n for n, _ in d.named_clauses()]
        if registered != names:
            ctx.violation("BaseDerivative.named_clauses", f"order:{len(seq)}_clauses:{repeated}",
                          f"named_clauses() order {registered} != registration order {names}",
                          observed=registered, expected=names, block=mini_of(paths[0]))
        ol = out.to(torch.float64).tolist()
        bad = _exact_eq(ol, exp)
        if bad and not seq:
            # the payoff without any clause is already wrong: that is the class's contract, not the fold
            i = bad[0]
            ctx.violation(CLASSNAME[kind] + ".payoff", classify(kind, call, paths[i], k16),
                          f"{CLASSNAME[kind]}({'call' if call else 'put'}, strike={k16 / SC}).payoff() differs from "
                          f"the contract on path/16={paths[i]} ({block['dtype']})", observed=ol[i],
                          expected=float(exp[i]), family="cls_payoff",
                          block={"dtype": block["dtype"], "paths16": [paths[i]], "strikes16": [k16], "kinds": [kind],
                                 "calls": [call], "explicit": True})
            return
        if bad:
            i = bad[0]
            sorted_names = names == sorted(names)
            inter = [payoff_ref.fold_clauses(frp[i], base[i], seq[:j], barrier) for j in range(len(seq))]
            zero = "zero_before_a_clause" if any(v == 0 for v in inter) else "nonzero_before_every_clause"
            cls = (f"fold:{len(seq)}_clauses:{'names_in_order' if sorted_names else 'names_out_of_order'}:{repeated}"
                   f":{zero}")
            ctx.violation(site, cls, f"payoff with clauses {seq} ({style} callables) registered as {names} on {CLASSNAME[kind]} "
                          f"differs from the fold in registration order (path/16={paths[i]})",
                          observed=ol[i], expected=float(exp[i]), block=mini_of(paths[i]))
        ctx.outcome((kind, call, tuple(seq), round(sum(ol), 6)))
        # payoff_fn() is documented to ignore the clauses; payoff() must not have changed the base payoff
        if len(seq) >= 3 and names == sorted(names):
            again = d.payoff().to(torch.float64).tolist()
            if again != ol:
                ctx.violation(site, "not_repeatable", "second payoff() call differs from the first",
                              observed=again[:4], expected=ol[:4], block=mini_of(paths[0]))
    if len(ctx.samples) < 6 and T == 3 and len(progs) > 50:
        prog = progs[len(progs) // 2]
        i = N - 2
        ctx.sample({"family": "clauses", "class": CLASSNAME[kind], "call": call, "strike": k16 / SC,
                    "barrier": b16 / SC, "clauses_in_registration_order": prog["seq"], "names": prog["names"],
                    "path": [v / SC for v in paths[i]], "base_payoff": float(base[i]),
                    "reference": float(payoff_ref.fold_clauses(frp[i], base[i], prog["seq"], barrier))})


# ---------------------------------------------------------------------------
# object reuse: histories of term changes on ONE derivative object
# ---------------------------------------------------------------------------

REUSE_KINDS = KINDS + ("forward_start", "variance_swap")


def reuse_ops(kind, T):
    """Mutation alphabet for one derivative object (initial state: strike 16/16, call, start = 1 step,
    no clause, path set A)."""
    ops = [["strike", k] for k in (20, 18, 16)]
    if kind in KINDS:
        ops += [["call"]] + [["clause", c] for c in ("double", "plus1", "knockout")]
        ops += [["replace_first", "plus1"], ["replace_last", "double"]]
    if kind == "forward_start":
        ops += [["start", j] for j in sorted({0, T - 1, 1})]
    ops += [["maturity"], ["paths_new"], ["paths_inplace"]]
    return ops


#: clause-only mutation alphabet: add a clause under a new name / re-register the first or the last existing
#: name with another clause.  Re-registration keeps the clause's position (the registry is an ordered dict:
#: assigning an existing key keeps its place - that is also what named_clauses() of /repo reports), so the
#: payoff is the fold over the CURRENT named clauses in that order.  Disabled while no clause is registered.
CLAUSE_OPS = ([["clause", c] for c in ("double", "plus1", "knockout")]
              + [["replace_first", c] for c in ("plus1", "double")]
              + [["replace_last", c] for c in ("knockout", "double")])


def _history_enabled(hist):
    n = 0
    for op in hist:
        if op[0] == "clause":
            n += 1
        elif op[0].startswith("replace") and n == 0:
            return False
    return True


def _reuse_strike(kind, k16):
    return k16 / 256 if kind == "variance_swap" else k16 / SC


@family
def reuse(ctx, block):
    """Every history of <= depth mutations on one derivative object whose underlier keeps the registered
    paths; payoff() is evaluated in the initial state and after every mutation and must equal the contract
    for the CURRENT terms / clauses / buffer contents.  Path set B = set A reversed in time (same shape).
    Exact for the option classes; forward start 2 eps (ratio + K); variance swap as in variance_swap."""
    import mpmath as mp
    import pfhedge.instruments as I
    from mc.core.explore import all_histories
    kind = block["kind"]
    dtype = DT[block["dtype"]]
    eps = torch.finfo(dtype).eps
    pathsA = _paths16(block)
    pathsB = [p[::-1] for p in pathsA]
    N, T = len(pathsA), len(pathsA[0])
    tens = {"A": _tensor(pathsA, dtype), "B": _tensor(pathsB, dtype)}
    plist = {"A": pathsA, "B": pathsB}
    frp = {"A": _fr(pathsA), "B": _fr(pathsB)}
    barrier16 = 24
    site = {"forward_start": "EuropeanForwardStartOption", "variance_swap": "VarianceSwap"}.get(kind) or CLASSNAME[kind]
    site += ".payoff"
    histories = block.get("histories")
    if histories is None:
        ops = CLAUSE_OPS if block.get("ops") == "clauses" else reuse_ops(kind, T)
        histories = [h for h in all_histories(ops, block["depth"]) if _history_enabled(h)]
    cache = {}

    def expected(st):
        """list of (value, tolerance) for the current state."""
        key = (st["k16"], st["call"], st["start"], tuple(st["clauses"]), st["paths"])
        if key in cache:
            return cache[key]
        out = []
        K = Fraction(st["k16"], SC)
        for p in frp[st["paths"]]:
            if kind == "forward_start":
                e = payoff_ref.forward_start(p, K, st["start"])
                tol = 2 * eps * float(p[-1] / p[st["start"]] + K)
            elif kind == "variance_swap":
                v, scale = payoff_ref.realized_variance(p, market.DT)
                k = st["k16"] / 256
                e = v - mp.mpf(k)
                tol = 2 * eps * (2 * scale + (T + 3) * v + 2 * abs(k))
            else:
                e = payoff_ref.fold_clauses(p, payoff_ref.payoff(kind, p, K, st["call"]), st["clauses"],
                                            Fraction(barrier16, SC))
                tol = 0
            out.append((e, tol))
        cache[key] = out
        return out

    for hist in histories:
        stock = market.primary("brownian", dtype=dtype)
        market.set_buffers(stock, spot=tens["A"])
        st = {"k16": 16, "call": True, "start": min(1, T - 1), "clauses": [], "paths": "A"}
        if kind in KINDS:
            d = market.derivative(kind, stock, T=T, strike=1.0, call=True)
        elif kind == "forward_start":
            d = I.EuropeanForwardStartOption(stock, strike=1.0, maturity=(T - 1) * market.DT,
                                             start=st["start"] * market.DT)
        else:
            d = I.VarianceSwap(stock, strike=_reuse_strike(kind, 16), maturity=(T - 1) * market.DT)
        supply = clause_supplier("function", barrier16 / SC)
        prev = None
        for step in range(len(hist) + 1):
            if step > 0:
                op = hist[step - 1]
                if op[0] == "strike":
                    d.strike = _reuse_strike(kind, op[1])
                    st["k16"] = op[1]
                elif op[0] == "call":
                    d.call = not d.call
                    st["call"] = not st["call"]
                elif op[0] == "start":
                    d.start = op[1] * market.DT
                    st["start"] = op[1]
                elif op[0] == "maturity":
                    d.maturity = d.maturity + market.DT      # the payoff reads the registered paths only
                elif op[0] == "clause":
                    d.add_clause(f"c{len(st['clauses'])}", supply(op[1]))
                    st["clauses"] = st["clauses"] + [op[1]]
                elif op[0] in ("replace_first", "replace_last"):
                    j = 0 if op[0] == "replace_first" else len(st["clauses"]) - 1
                    d.add_clause(f"c{j}", supply(op[1]))          # existing name: replaced in place
                    st["clauses"] = st["clauses"][:j] + [op[1]] + st["clauses"][j + 1:]
                elif op[0] == "paths_new":
                    st["paths"] = "B" if st["paths"] == "A" else "A"
                    market.set_buffers(stock, spot=tens[st["paths"]])
                elif op[0] == "paths_inplace":
                    st["paths"] = "B" if st["paths"] == "A" else "A"
                    with torch.no_grad():
                        stock.spot.copy_(tens[st["paths"]])
                else:
                    raise KeyError(op)
                ctx.add("transitions", 1)
            names_now = [n for n, _ in d.named_clauses()]
            if names_now != [f"c{j}" for j in range(len(st["clauses"]))]:
                ctx.violation("BaseDerivative.named_clauses", "reuse:" + ">".join(o[0] for o in hist[:step]),
                              f"named_clauses() = {names_now} after {hist[:step]}", observed=names_now,
                              expected=[f"c{j}" for j in range(len(st["clauses"]))],
                              block={"kind": kind, "dtype": block["dtype"], "paths16": [pathsA[0]],
                                     "histories": [hist[:step]]})
            out = d.payoff()
            exp = expected(st)
            changed = 0 if prev is None else sum(1 for a, b in zip(exp, prev) if a[0] != b[0])
            ctx.tick(N, nontrivial=changed)
            prev = exp
            cls = "reuse:" + (">".join(o[0] for o in hist[:step]) if step else "initial")

            def mini(path):
                return {"kind": kind, "dtype": block["dtype"], "paths16": [path], "histories": [hist[:step]]}
            if tuple(out.shape) != (N,):
                ctx.violation(site, cls + ":shape", f"shape {tuple(out.shape)}", observed=list(out.shape), expected=[N],
                              block=mini(pathsA[0]))
                break
            ol = out.to(torch.float64).tolist()
            bad = None
            for i, (e, tol) in enumerate(exp):
                o = ol[i]
                if tol == 0:
                    ok = o == o and Fraction(o) == e
                else:
                    ev = mp.mpf(e.numerator) / e.denominator if isinstance(e, Fraction) else e
                    ok = o == o and abs(mp.mpf(o) - ev) <= tol
                if not ok:
                    bad = i
                    break
            if bad is not None:
                terms = {"strike": _reuse_strike(kind, st["k16"]), "call": st["call"], "start_step": st["start"],
                         "clauses": st["clauses"], "paths": plist[st["paths"]][bad]}
                ctx.violation(site, cls, f"one {site.split('.')[0]} object after the history {hist[:step]}: payoff() "
                              f"does not equal the contract for the current state {terms}", observed=ol[bad],
                              expected=float(exp[bad][0]), block=mini(pathsA[bad]))
                break
            ctx.outcome((kind, tuple(tuple(o) for o in hist[:step]), round(sum(ol), 6)))
        ctx.add("traces_validated_against_impl", 1)
    ctx.add("states", len(cache))


# ---------------------------------------------------------------------------

def run(ctx):
    ctx.rule("every path of length T over the price alphabet (full product) x every strike symbol x call/put "
             "x function and class entry points x input layouts x dtype; forward start: every (start_index, "
             "end_index) pair and every admitted (start, dt) pair; clauses: every sequence of <= 3 clauses from a "
             "4-symbol non-commuting alphabet x every assignment of names; non-trivial = the path ties with the "
             "strike or has an interior extreme (payoffs), the path moves (forward start, variance swap), the "
             "fold differs from the reversed fold (clauses)")
    ctx.assume("dyadic price/strike alphabets: every float32/float64 operation of the option payoffs is exact, "
               "comparison is bitwise; forward-start ratio: 2 eps (ratio+K); variance swap: derived eps bound")
    ctx.assume("forward start: a start whose exact quotient start/dt is within 4 ulp of an integer k is k steps "
               "(start index k: the start time is on the grid up to the rounding of start and dt); a start "
               "farther than 2^-20 from every integer is struck at the last grid time before it (floor); "
               "nothing in between is enumerated.  Variance swap on one-point paths is excluded (no return)")
    ctx.assume("non-dyadic family: float64 only; the python-float evaluation of the contract (one subtraction / "
               "comparison / division) is bit-for-bit the IEEE double result torch float64 must return")
    ctx.assume("reuse histories: payoff() must reflect the current public attributes (strike, call, start), the "
               "registered clauses and the current content of the spot buffer; removing a clause has no public API "
               "and is not enumerated; re-registering a clause under an existing name replaces it in place (ordered-dict "
               "semantics, as named_clauses() of /repo reports)")
    ctx.assume("clauses are represented by the enumerated alphabet, not by all programs")
    base = [12, 16, 20, 24]                       # 0.75, 1, 1.25, 1.5
    extra = ctx.extra_symbol("price", [8, 10, 14, 18, 22, 28, 32])
    A4 = base
    A5 = sorted(set(base + [extra]))
    ctx.alphabet("price/16", A5)
    strikes = [16, 20, 18, 8, 40, 12, 24, 17]     # ties (incl. lowest/highest symbol), between, outside
    extra_k = ctx.extra_symbol("strike", [13, 14, 19, 21, 22, 23, 26])
    strikes_all = strikes + [extra, extra_k]
    ctx.alphabet("strike/16", strikes_all)
    Ts = ctx.pick([1, 2, 3, 4], [1, 2, 3, 4, 5])
    ctx.info["T_max"] = max(Ts)

    def alpha(T):
        if ctx.quick:
            return A5 if T <= 3 else A4
        return A5

    # functional payoffs
    for T in Ts:
        for kind in KINDS:
            for dtype in ("float64", "float32"):
                layouts = ["flat", "grid", "defaults"] + (["single"] if T <= 2 else [])
                if dtype == "float32":
                    layouts = ["flat"]
                ctx.run("fn_payoff", {"kind": kind, "dtype": dtype, "T": T, "A16": alpha(T),
                                      "strikes16": strikes_all, "calls": [True, False], "layouts": layouts})
    # classes + orderings
    for T in Ts:
        for dtype in ("float64", "float32"):
            ctx.run("cls_payoff", {"dtype": dtype, "T": T, "A16": alpha(T), "strikes16": strikes_all})
        ctx.run("cls_payoff", {"dtype": "float64", "T": T, "A16": alpha(T), "strikes16": [16, 20], "explicit": False})
    # non-positive strikes ("all strikes"): price >= K is not price / K >= 1 there (seeded C12-27); a negative price
    # symbol makes the comparison with K = 0 and K < 0 two-sided (rates, spreads)
    ctx.alphabet("strike/16 (non-positive, with price symbols -8, 12, 20)", [0, -16, -4])
    for T in [t for t in Ts if t <= 3]:
        for dtype in ("float64", "float32"):
            ctx.run("cls_payoff", {"dtype": dtype, "T": T, "A16": [-8, 12, 20], "strikes16": [0, -16, -4]})
        for kind in KINDS:
            ctx.run("fn_payoff", {"kind": kind, "dtype": "float64", "T": T, "A16": [-8, 12, 20],
                                  "strikes16": [0, -16, -4], "calls": [True, False], "layouts": ["flat"]})
    # one path only (N = 1)
    for p in ([16], [12, 20], [20, 24, 16]):
        ctx.run("cls_payoff", {"dtype": "float64", "paths16": [p], "strikes16": [16, 18]})
    # forward start
    fs_strikes = [16, 12, 18, 24]
    for T in Ts:
        if T > 4:
            continue
        A = alpha(T) if T <= 3 else A4
        for dtype in ("float64", "float32"):
            ctx.run("forward_start_fn", {"dtype": dtype, "T": T, "A16": A, "strikes16": fs_strikes})
    dts = [1 / 256, 1 / 128, 1 / 250, 0.01, 1 / 365]
    ctx.alphabet("forward-start dt", ["1/256", "1/128", "1/250", "0.01", "1/365", "0.1"])
    ctx.alphabet("forward-start start/dt", "k + f/64, k = 0..T-1, f in {0, 1, 16, 32, 45, 63}")
    ctx.alphabet("forward-start maturity/dt", "T-1 - g/64, g in {0, 16, 32, 48} (grid of T = ceil(M/dt)+1 points), start <= M")
    for T in Ts:
        A = alpha(T) if T <= 3 else A4
        for dtype in ("float64", "float32"):
            if dtype == "float32" and T != 3:
                continue
            ctx.run("forward_start_cls", {"dtype": dtype, "T": T, "A16": A, "strikes16": fs_strikes[:2],
                                          "dts": dts + [0.1], "fracs64": [0, 1, 16, 32, 45, 63],
                                          "mat_fracs64": [0, 16, 32, 48]})
    # natural on-grid starts: dt = 1/n, start = k/n and k*dt for EVERY k below the path length; paths = the
    # constant path and all its one-time deviations (the price at each single index is observable)
    ns = [250, 100, 50, 365, 256]
    ctx.alphabet("forward-start on-grid dt", ["1/250", "1/100 (= 0.01)", "1/50", "1/365", "1/256"])
    T_long = ctx.pick(80, 128)
    ctx.info["forward_start_on_grid_T"] = T_long
    ctx.run("forward_start_cls", {"dtype": "float64", "T": T_long, "onehot": {"base16": 16, "dev16": [20, 12]},
                                  "strikes16": [12], "ns": ns})
    for T in (2, 3, 4):
        ctx.run("forward_start_cls", {"dtype": "float64", "T": T, "A16": A4, "strikes16": [16], "ns": ns})
    # non-dyadic float64 prices / strikes
    nd_extra = ctx.extra_symbol("nondyadic", [0.7, 1.05, 1.7, 0.3, 1.15, 2.3])
    nd_A = [0.9, 1.1, 1.3, nd_extra]
    nd_K = [0.9, 1.1, 1.3, 1.2, nd_extra]
    ctx.alphabet("non-dyadic price", nd_A)
    ctx.alphabet("non-dyadic strike", nd_K)
    for T in ctx.pick([1, 2, 3], [1, 2, 3, 4, 5]):
        ctx.run("nondyadic", {"T": T, "A": nd_A, "strikes": nd_K})
    # binaries within a few ulps of the strike
    ulpK = {"float64": [1.0, 1.25, 1.1, 0.9, 1.3], "float32": [1.0, 1.25] + [float(torch.tensor(v, dtype=torch.float32))
                                                                         for v in (1.1, 0.9, 1.3)]}
    ctx.alphabet("ulp strikes", ulpK)
    ctx.alphabet("ulp price symbols", "K, nextafter chains K -+ 1, 2, 4 ulp, K/2, 2K")
    for dtype in ("float64", "float32"):
        for K in ulpK[dtype]:
            for T in ctx.pick([1, 2], [1, 2, 3]):
                ctx.run("binary_ulp", {"dtype": dtype, "K": K, "T": T})
    # variance swap
    # incl. steps whose reciprocal is not an integer and steps above 1/2 (annualisation is a division by dt)
    vs_dts = [1 / 256, 1 / 250, 0.003, 0.03, 1 / 252.5, 0.3, 0.7]
    ctx.alphabet("variance-swap dt", ["1/256", "1/250", "0.003", "0.03", "1/252.5", "0.3", "0.7"])
    for T in Ts:
        if T < 2:
            continue
        A = alpha(T) if T <= 3 else A4
        if ctx.thorough and T == 5:
            A = A4
        for dtype in ("float64", "float32"):
            ctx.run("variance_swap", {"dtype": dtype, "T": T, "A16": A, "strikes": [0.04, 0.0625, 0.0], "dts": vs_dts})
    # default-constructed variance swap (strike 0.04, maturity 20/250, dt 1/250): T = 21, two-symbol tail
    tail = [[16] * 19 + [a, b] for a in A4 for b in A4]
    ctx.run("variance_swap", {"dtype": "float64", "paths16": tail, "strikes": [0.04], "dts": [1 / 250]})
    # object reuse histories
    depth = ctx.pick(2, 3)
    ctx.info["reuse_history_depth"] = depth
    ctx.alphabet("reuse mutations", ["strike:=1.25|1.125|1", "toggle call", "start:=step 0|1|T-1", "maturity+=dt",
                                     "add clause x2|+1|knock-out", "re-register the first / last clause name", "register other paths", "overwrite paths in place"])
    rblocks = []
    for kind in REUSE_KINDS:
        for dtype in ("float64", "float32"):
            if dtype == "float32" and kind != "european":
                continue
            rblocks.append({"kind": kind, "dtype": dtype, "T": 3, "A16": A4, "depth": depth})
    # clause registry histories (add / replace-by-name) to depth 3 (thorough 4)
    for kind in ("european", "american_binary"):
        rblocks.append({"kind": kind, "dtype": "float64", "T": 3, "A16": A4, "depth": depth + 1, "ops": "clauses"})
    rblocks.append({"kind": "european", "dtype": "float64", "T": 1, "A16": A5, "depth": depth})
    rblocks.append({"kind": "lookback", "dtype": "float64", "T": 2, "A16": A5, "depth": depth})
    if ctx.thorough:
        ctx.run_parallel("reuse", rblocks, workers=4)
    else:
        for b in rblocks:
            ctx.run("reuse", b)
    # clauses
    ctx.alphabet("clauses", list(CLAUSE_ALPHABET))
    ctx.info["clause_programs"] = len(clause_programs(3))
    cl_T = ctx.pick([1, 2, 3], [1, 2, 3, 4])
    blocks = []
    for T in cl_T:
        for kind in KINDS:
            for call in (True, False):
                if ctx.quick and T < 3 and not (kind == "european" and call):
                    continue
                for dtype in ("float64", "float32"):
                    if dtype == "float32" and not (kind == "european" and call and T == 3):
                        continue
                    blocks.append({"dtype": dtype, "T": T, "A16": A4 if T >= 3 else A5, "kind": kind, "call": call,
                                   "strike16": 18 if kind in ("european", "lookback") else 20, "barrier16": 24})
    # path sets on which the raw payoff is zero on EVERY path (strike above all symbols; one path at / below
    # the strike, N = 1) and a barrier at the lowest symbol (the knock-out zeroes every path): clauses that do
    # not map zero to zero (+1) and whatever follows them must still be applied
    for T in (1, 3):
        blocks.append({"dtype": "float64", "T": T, "A16": A4, "kind": "european", "call": True, "strike16": 40,
                       "barrier16": 24})
        blocks.append({"dtype": "float64", "T": T, "A16": A4, "kind": "european", "call": True, "strike16": 18,
                       "barrier16": 12})
        blocks.append({"dtype": "float64", "T": T, "A16": A4, "kind": "american_binary", "call": False,
                       "strike16": 8, "barrier16": 12})
    for p1 in ([16], [12], [12, 20, 16]):
        blocks.append({"dtype": "float64", "paths16": [p1], "kind": "european", "call": True, "strike16": 16,
                       "barrier16": 24})
    ctx.alphabet("clause callables", ["one function object per symbol", "bound methods of one object",
                                      "fresh function per registration"])
    for b in list(blocks):
        if b["dtype"] == "float64" and (ctx.thorough or (b["kind"] == "european" and b["call"])):
            blocks.append(dict(b, callable="bound_method"))
        if b["dtype"] == "float64" and b["kind"] == "european" and b["call"] and b.get("T") == 3:
            blocks.append(dict(b, callable="fresh"))
    if ctx.thorough:
        # all 341 sequences of <= 4 clauses x all name assignments (6565 programs) on the European call
        ctx.info["clause_programs_len4"] = len(clause_programs(4))
        blocks.append({"dtype": "float64", "T": 3, "A16": A4, "kind": "european", "call": True, "strike16": 18,
                       "barrier16": 24, "max_len": 4})
        ctx.run_parallel("clauses", blocks, workers=4)
    else:
        for b in blocks:
            ctx.run("clauses", b)

"""C04 - risk measures obey the convex-risk-measure axioms.  Engine: grid (relational).

Family ``axioms``: every sample of length N over the alphabet (all |A|^N columns of one
(N, M) tensor) realised at a scale/dtype, evaluated by the real criterion; then, on the
*implementation's own values*, the axioms the property names:

  all ordered pairs (x, y), x != y
      monotone      x <= y pointwise  =>  rho(x) >= rho(y)
      convex        rho(t x + (1-t) y) <= t rho(x) + (1-t) rho(y), t in {1/4, 1/2, 3/4}
                    (t = 1/4 on ordered pairs covers 3/4; t = 1/2 on unordered pairs)
  all (sample, c)   cash invariance rho(x + c) = rho(x) - c                (risk measures)
  all (sample, k)   positive homogeneity ES(k x) = k ES(x), k in {1/2, 2, 8}
  all (sample, p<p')  ES non-increasing in p;  all (sample, a<a') entropic non-decreasing in a
  all samples       -max <= rho <= -min, rho >= -mean  (quadratic CVaR: lowered by 1/(4 lam))

The one-sided slack of every relation is the sum of the derived value tolerances of the
evaluations involved (mc.models.risk_space.tol_value) plus the rounding of computed inputs.

Quadratic CVaR / finding 11: a violated relation is attributed to finding 11 only if,
computed from the inputs, (a) at least one sample involved has its minimiser below the
searched range (mean(max x - x) < 1/(2 lam)) and (b) every value involved is exactly what
the range-restricted search returns (restricted minimum for such samples, true minimum for
the others).  Any other failure of the same relation keeps the plain class.
"""
from __future__ import annotations

import math

import torch

from mc.models import risk_ref as R
from mc.models import risk_space as S

FAMILIES = {}


def family(fn):
    FAMILIES[fn.__name__] = fn
    return fn


RISK = ("erm", "es", "qcvar")
CASH = {"float64": [-1.5, 0.25, 3.0, 2.0 ** 20], "float32": [-1.5, 0.25, 3.0, 1024.0]}
HOMOG = [0.5, 2.0, 8.0]
PAIR_CHUNK = 250000


def _evaluator(block, dtype):
    via, shape = block.get("via", "module"), block.get("shape", "2d")
    measure = block["measure"]

    def ev(p, x):
        """x (N, M) -> (M,) values; the trailing-shape variant packs the columns as (N, M', K)."""
        M = x.size(1)
        if shape == "3d":
            K = 3
            pad = (-M) % K
            xp = torch.cat([x, x[:, :pad]], dim=1) if pad else x
            out = S.evaluate(measure, p, xp.reshape(x.size(0), -1, K), via=via, dim=0)
            expect = (xp.size(1) // K, K)
        else:
            out = S.evaluate(measure, p, x, via=via, dim=0)
            expect = (M,)
        if tuple(out.shape) != expect or out.dtype != x.dtype:
            raise _Shape(tuple(out.shape), out.dtype, expect)
        return out.reshape(-1)[:M].to(torch.float64)
    return ev


class _Shape(Exception):
    pass


def _qc_known(lam, roles):
    """roles: list of (x (N,K) realised inputs, v (K,) implementation values, tol (K,)).
    -> bool (K,): the instance is explained by finding 11 (see module docstring)."""
    some_below = None
    all_conform = None
    for x, v, tol in roles:
        q = S.qcvar_f64(x, lam)
        xd = x.to(torch.float64)
        r = xd.amax(0) - xd.amin(0)
        conf = torch.where(q["below"],
                           (v - q["restricted"]).abs() <= tol + S.QC_SLACK + S.QC_RELPREC * (r + 2 * S.QC_SLACK),
                           (v - q["min"]).abs() <= tol)
        some_below = q["below"] if some_below is None else (some_below | q["below"])
        all_conform = conf if all_conform is None else (all_conform & conf)
    return some_below & all_conform


@family
def axioms(ctx, block):
    """With ``deterministic: true`` the whole block is evaluated under the ambient switch
    torch.use_deterministic_algorithms(True) (restored afterwards): the axioms do not depend on it."""
    if block.get("deterministic"):
        prev = torch.are_deterministic_algorithms_enabled()
        warn = torch.is_deterministic_algorithms_warn_only_enabled()
        torch.use_deterministic_algorithms(True)
        try:
            return _axioms(ctx, block)
        finally:
            torch.use_deterministic_algorithms(prev, warn_only=warn)
    return _axioms(ctx, block)


def _axioms(ctx, block):
    measure, dtype, scale = block["measure"], block["dtype"], block["scale"]
    params = block["params"]
    cols = S.columns(block)
    N, M = cols.shape
    x = S.realise(cols, scale, dtype, block.get("offset", 0.0))
    xd = x.to(torch.float64)
    eps = S.eps_of(x)
    via = block.get("via", "module")
    site = (S.SITE if via == "module" else S.FSITE)[measure]
    only = block.get("only")
    ev = _evaluator(block, dtype)
    nonconst = (cols != cols[:1]).any(0)

    def mini(js, p, extra_cols=None):
        b = {k: block[k] for k in ("measure", "scale", "dtype", "via", "shape", "offset", "deterministic") if k in block}
        b["N"] = N
        b["cols"] = [S.col_list(cols, j) for j in js]
        b["params"] = p if isinstance(p, list) else [p]
        return b

    def report(axiom, p, n, idx, roles, msg, observed, expected):
        """n violated instances; idx(i) -> column indices of instance i; roles: tensors over
        the instances for the quadratic-CVaR classification.  Vectorised: one stored case per
        class (the first in enumeration order), all instances counted."""
        if n == 0:
            return
        known = _qc_known(p, roles) if measure == "qcvar" else torch.zeros(n, dtype=torch.bool)
        plain = axiom + (":deterministic_algorithms" if block.get("deterministic") else "")
        for flag, cls in ((True, "minimiser_below_range:" + axiom), (False, plain)):
            sel = (known == flag).nonzero().flatten()
            if len(sel) == 0:
                continue
            i = int(sel[0])
            ctx.violation(site, cls, msg(i), observed=observed(i), expected=expected(i), block=mini(idx(i), p))
            if len(sel) > 1:
                ctx.viol_counts[(str(site), str(cls))] += len(sel) - 1

    # ---- values on the base samples ---------------------------------------------------
    V, T = {}, {}
    for p in params:
        try:
            V[p] = ev(p, x)
        except _Shape as e:
            ctx.violation(site, "shape_or_dtype", f"output shape {e.args[0]} dtype {e.args[1]} for input "
                          f"{tuple(x.shape)} ({block.get('shape', '2d')})", observed=str(e.args[0]),
                          expected=str(e.args[2]), block=block)
            return
        T[p] = S.tol_value(measure, p, x, value=V[p] if measure == "eloss" else None)
        ctx.tick(M, nontrivial=int(nonconst.sum()))
        bad = (V[p].isnan() | (V[p].isinf() if measure in RISK else torch.zeros(M, dtype=torch.bool)))
        if bad.any():
            j = int(bad.nonzero()[0])
            ctx.violation(site, "nan_or_inf", f"{measure}(param={p}) = {float(V[p][j])} on a finite sample",
                          observed=repr(float(V[p][j])), expected="finite", block=mini([j], p))
            return
        for o in V[p][:: max(1, M // 25)].tolist():
            ctx.outcome((measure, p, round(o, 9) if math.isfinite(o) else repr(o)))
    mx, mn, mean = xd.amax(0), xd.amin(0), xd.mean(0)
    A = xd.abs().amax(0)

    # ---- bounds -----------------------------------------------------------------------
    if measure in RISK and only in (None, "bounds"):
        for p in params:
            low = 1 / (4 * p) if measure == "qcvar" else 0.0
            v, t = V[p], T[p] + 2 * N * torch.finfo(torch.float64).eps * A
            for name, viol, bound in (("bound_above_minus_min", v > -mn - low + t, -mn - low),
                                      ("bound_below_minus_max", v < -mx - low - t, -mx - low),
                                      ("bound_below_minus_mean", v < -mean - low - t, -mean - low)):
                ctx.tick(M, nontrivial=int(nonconst.sum()))
                js = viol.nonzero().flatten()
                if len(js):
                    report(name, p, len(js), lambda i: [int(js[i])], [(x[:, js], v[js], T[p][js])],
                           lambda i: f"{measure}(param={p}) on {xd[:, js[i]].tolist()} violates {name}"
                           + (f" lowered by 1/(4 lam) = {low}" if low else ""),
                           lambda i: float(v[js[i]]), lambda i: float(bound[js[i]]))

    # ---- parameter monotonicity, homogeneity, cash invariance ---------------------------
    if measure in ("es", "erm") and len(params) > 1 and only in (None, "param"):
        ps = sorted(params)
        for p1, p2 in zip(ps[:-1], ps[1:]):
            d = V[p2] - V[p1]                       # erm: >= 0, es: <= 0
            slack = T[p1] + T[p2]
            viol = (d < -slack) if measure == "erm" else (d > slack)
            ctx.tick(M, nontrivial=int(nonconst.sum()))
            js = viol.nonzero().flatten()
            name = "not_nondecreasing_in_a" if measure == "erm" else "not_nonincreasing_in_p"
            report(name, [p1, p2], len(js), lambda i: [int(js[i])], None,
                   lambda i: f"{measure} on {xd[:, js[i]].tolist()}: value at {p1} vs {p2}",
                   lambda i: [float(V[p1][js[i]]), float(V[p2][js[i]])], lambda i: name[4:])
    if measure == "es" and only in (None, "homogeneity"):
        for p in params:
            for k in HOMOG:
                xk = x * k
                vk = ev(p, xk)
                slack = S.tol_value(measure, p, xk) + k * T[p]
                viol = (vk - k * V[p]).abs() > slack
                ctx.tick(M, nontrivial=int(nonconst.sum()))
                js = viol.nonzero().flatten()
                report("positive_homogeneity", p, len(js), lambda i: [int(js[i])], None,
                       lambda i: f"ES_{p}({k} x) != {k} ES_{p}(x) on x = {xd[:, js[i]].tolist()}",
                       lambda i: float(vk[js[i]]), lambda i: float(k * V[p][js[i]]))
    if measure in RISK and only in (None, "cash"):
        for p in params:
            for c0 in CASH[dtype]:
                c = c0 * scale
                xc = x + c
                vc = ev(p, xc)
                delta = S.input_rounding(measure, p, xc)              # rounding of x + c
                want = V[p] - c
                slack = S.tol_value(measure, p, xc) + T[p] + delta + 2 * eps * want.abs()
                viol = ~((vc - want).abs() <= slack)
                ctx.tick(M, nontrivial=M)
                js = viol.nonzero().flatten()
                report("cash_invariance", p, len(js), lambda i: [int(js[i])],
                       [(x[:, js], V[p][js], T[p][js]), (xc[:, js], vc[js], slack[js])],
                       lambda i: f"{measure}(param={p}): rho(x + {c}) != rho(x) - {c} on x = {xd[:, js[i]].tolist()}",
                       lambda i: float(vc[js[i]]), lambda i: float(want[js[i]]))

    # ---- the target argument: forward(input, target) == forward(input - target) for every documented
    # form of the target ("torch.Tensor or float"): python float, python int, 0-dim tensor, full tensor
    if via == "module" and block.get("shape", "2d") == "2d" and only in (None, "target"):
        tvals = {"float": 0.375 * scale, "int": 2, "tensor0d": torch.tensor(0.375 * scale, dtype=x.dtype),
                 "tensor": ((torch.arange(N * M, dtype=torch.float64) * 3) % 7 - 3).reshape(N, M).to(x.dtype) / 4 * scale}
        for p in params:
            m = S.module(measure, p)
            for kind, t in tvals.items():
                if measure == "iso" or (measure == "eloss" and kind == "int" and scale < 1):
                    inp = x + t if kind != "tensor" else x + t.abs()       # keep input - target in the domain
                    t = t if kind != "tensor" else t.abs()
                else:
                    inp = x + t
                with torch.no_grad():
                    got = m(inp, t).to(torch.float64)
                    want = m(inp - t).to(torch.float64)
                ctx.tick(M, nontrivial=M)
                same = (got == want) | (got.isnan() & want.isnan())
                js = (~same).nonzero().flatten()
                if got.shape != want.shape or len(js):
                    j = int(js[0]) if len(js) else 0
                    ctx.violation(site, f"target_not_subtracted:{kind}",
                                  f"{measure}(param={p}): forward(input, target) != forward(input - target) for a "
                                  f"{kind} target ({t if kind != 'tensor' else 'tensor'}), input - target = {xd[:, j].tolist()}",
                                  observed=float(got.reshape(-1)[j]), expected=float(want.reshape(-1)[j]),
                                  block=mini([j], p))
                    if len(js) > 1:
                        ctx.viol_counts[(str(site), f"target_not_subtracted:{kind}")] += len(js) - 1

    # ---- pairs: monotonicity and convexity ---------------------------------------------
    if M < 2 or only not in (None, "pairs"):
        return
    rows = max(1, PAIR_CHUNK // M)
    ar = torch.arange(M)
    for i0 in range(0, M, rows):
        I = ar[i0:i0 + rows]
        ii = I.repeat_interleave(M)
        jj = ar.repeat(len(I))
        keep = ii != jj
        ii, jj = ii[keep], jj[keep]
        dom = (cols[:, ii] <= cols[:, jj]).all(0)            # x_i <= x_j pointwise (exact: integers)
        strict = dom & (cols[:, ii] < cols[:, jj]).any(0)
        for p in params:
            vi, vj = V[p][ii], V[p][jj]
            ti, tj = T[p][ii], T[p][jj]
            # monotone: better P&L (x_j >= x_i) never has higher risk / loss
            viol = dom & ~(vi >= vj - (ti + tj))
            ctx.tick(int(dom.sum()), nontrivial=int(strict.sum()))
            ks = viol.nonzero().flatten()
            if len(ks):
                a, b = ii[ks], jj[ks]
                report("monotone", p, len(ks), lambda n: [int(a[n]), int(b[n])],
                       [(x[:, a], vi[ks], ti[ks]), (x[:, b], vj[ks], tj[ks])],
                       lambda n: f"{measure}(param={p}): x <= y pointwise but rho(x) < rho(y); "
                                 f"x = {xd[:, a[n]].tolist()}, y = {xd[:, b[n]].tolist()}",
                       lambda n: [float(vi[ks[n]]), float(vj[ks[n]])], lambda n: "rho(x) >= rho(y)")
            # convex
            for t, sel in ((0.25, None), (0.5, ii < jj)):
                a, b = (ii, jj) if sel is None else (ii[sel], jj[sel])
                if len(a) == 0:
                    continue
                mix = t * x[:, a] + (1 - t) * x[:, b]
                vm = ev(p, mix)
                va, vb, ta, tb = V[p][a], V[p][b], T[p][a], T[p][b]
                rhs = t * va + (1 - t) * vb
                delta = S.input_rounding(measure, p, mix)
                tm = S.tol_value(measure, p, mix, value=vm if measure == "eloss" else None)
                slack = tm + t * ta + (1 - t) * tb + S.lipschitz_slack(measure, p, mix, delta) \
                    + 2 * eps * (va.abs() + vb.abs())
                finite = vm.isfinite() & rhs.isfinite()
                viol = ~(vm <= rhs + slack) & (finite | vm.isnan())
                ctx.tick(len(a), nontrivial=int(finite.sum()))
                ks = viol.nonzero().flatten()
                if len(ks):
                    aa, bb = a[ks], b[ks]
                    report("convex", p, len(ks), lambda n: [int(aa[n]), int(bb[n])],
                           [(x[:, aa], va[ks], ta[ks]), (x[:, bb], vb[ks], tb[ks]), (mix[:, ks], vm[ks], tm[ks])],
                           lambda n: f"{measure}(param={p}): rho({t} x + {1 - t} y) > {t} rho(x) + {1 - t} rho(y); "
                                     f"x = {xd[:, aa[n]].tolist()}, y = {xd[:, bb[n]].tolist()}",
                           lambda n: float(vm[ks[n]]), lambda n: float(rhs[ks[n]]))
    if len(ctx.samples) < 6 and N == 2 and block.get("shape", "2d") == "2d" and \
            not any(s.get("measure") == measure for s in ctx.samples):
        p = params[0]
        ctx.sample({"family": "axioms", "measure": measure, "param": p, "dtype": dtype, "scale": scale,
                    "x": xd[:, 1].tolist(), "y": xd[:, M - 1].tolist(),
                    "rho(x)": float(V[p][1]), "rho(y)": float(V[p][M - 1]),
                    "relations": "monotone, convex(1/4,1/2,3/4), cash, bounds on every pair / sample"})


@family
def es_long(ctx, block):
    """Expected shortfall on LONG samples (N = 9..11, so that p N is a non-integer above 2 and the
    tail holds several outcomes plus a fractional one): every sample over a 2-3 symbol alphabet
    (full product, up to 3^11 columns), bounds, monotone in p, and convexity over a fixed family of
    pairs: every sample x paired with its rotations y = column (j + r) mod M for the rotations r in
    ``rot`` (so every sample meets |rot| partners; not the full square), t in {1/4, 1/2, 3/4}."""
    dtype, scale, via = block["dtype"], block["scale"], block.get("via", "module")
    cols = S.columns(block)
    N, M = cols.shape
    x = S.realise(cols, scale, dtype)
    xd = x.to(torch.float64)
    eps = S.eps_of(x)
    site = (S.SITE if via == "module" else S.FSITE)["es"]
    params = sorted(block["params"])
    rots = [r % M for r in block["rot"] if r % M]

    def mini(js, ps):
        return {"N": N, "cols": [S.col_list(cols, j) for j in js], "params": ps, "scale": scale, "dtype": dtype,
                "via": via, "rot": [1]}

    def many(cls, n):
        if n > 1:
            ctx.viol_counts[(str(site), cls)] += n - 1

    V, T = {}, {}
    for p in params:
        V[p] = S.evaluate("es", p, x, via=via, dim=0).to(torch.float64)
        T[p] = S.tol_value("es", p, x)
        ctx.tick(M, nontrivial=M)
        if tuple(V[p].shape) != (M,) or V[p].isnan().any():
            ctx.violation(site, "shape_or_nan:long", f"es(p={p}) on {tuple(x.shape)}: shape {tuple(V[p].shape)} or NaN",
                          block=block)
            return
        mx, mn, mean = xd.amax(0), xd.amin(0), xd.mean(0)
        t = T[p] + 2 * N * torch.finfo(torch.float64).eps * xd.abs().amax(0)
        for name, viol in (("bound_above_minus_min", V[p] > -mn + t), ("bound_below_minus_max", V[p] < -mx - t),
                           ("bound_below_minus_mean", V[p] < -mean - t)):
            js = viol.nonzero().flatten()
            if len(js):
                ctx.violation(site, name + ":long", f"es(p={p}) on {xd[:, js[0]].tolist()} violates {name}",
                              observed=float(V[p][js[0]]), block=mini([int(js[0])], [p]))
                many(name + ":long", len(js))
        ctx.outcome(("es_long", N, p, round(float(V[p].sum()), 6)))
    for p1, p2 in zip(params[:-1], params[1:]):
        js = (V[p2] - V[p1] > T[p1] + T[p2]).nonzero().flatten()
        ctx.tick(M, nontrivial=M)
        if len(js):
            ctx.violation(site, "not_nonincreasing_in_p:long", f"es on {xd[:, js[0]].tolist()}: value at {p1} vs {p2}",
                          observed=[float(V[p1][js[0]]), float(V[p2][js[0]])], block=mini([int(js[0])], [p1, p2]))
            many("not_nonincreasing_in_p:long", len(js))
    ar = torch.arange(M)
    for r in rots:
        jj = (ar + r) % M
        y = x[:, jj]
        for p in params:
            for t in (0.25, 0.5, 0.75):
                mix = t * x + (1 - t) * y
                vm = S.evaluate("es", p, mix, via=via, dim=0).to(torch.float64)
                rhs = t * V[p] + (1 - t) * V[p][jj]
                slack = S.tol_value("es", p, mix) + t * T[p] + (1 - t) * T[p][jj] + S.input_rounding("es", p, mix) \
                    + 2 * eps * (V[p].abs() + V[p][jj].abs())
                ks = (~(vm <= rhs + slack)).nonzero().flatten()
                ctx.tick(M, nontrivial=int((cols != cols[:, jj]).any(0).sum()))
                if len(ks):
                    k = int(ks[0])
                    ctx.violation(site, "convex:long", f"es(p={p}): rho({t} x + {1 - t} y) > {t} rho(x) + {1 - t} rho(y); "
                                  f"x = {xd[:, k].tolist()}, y = {xd[:, jj[k]].tolist()}", observed=float(vm[k]),
                                  expected=float(rhs[k]), block=mini([k, int(jj[k])], [p]))
                    many("convex:long", len(ks))


# ----------------------------------------------------------------------------

# isoelastic relative risk aversions: the logarithmic branch is a == 1 exactly; just below 1 the power law applies
ISO_A = [0.25, 0.5, 1 - 1e-5, 1 - 1e-6, 1 - 5e-7, 1 - 1e-7, math.nextafter(1.0, 0.0), 1.0]
# tiny positive outcomes (an almost wiped-out position): numerators/8 at scale 8e-6 = {1e-6, 3e-6, 1e-5, 1e-4, 7e-4}
TINY = [1, 3, 10, 100, 700]
# entropic risk aversions: 1e-4, 5e-4, 2e-3 straddle 1e-3 (a * spread reaches 1e2..1e3 at scale 1e6: a small
# coefficient is NOT a small exponent), then the O(1) values
PARAMS = {"erm": [1e-4, 5e-4, 2e-3, 0.1, 1.0, 10.0], "es": [1e-12, 1e-9, 1e-7, 0.05, 0.2, 1 / 3, 0.5, 0.75, 0.8, 1.0], "qcvar": [1.0, 2.0, 10.0, 100.0],
          "eloss": [0.1, 1.0, 10.0], "iso": ISO_A}

MIXED = [1, 2 ** 27, 3 * 2 ** 27]     # numerators/8 at scale 1/4: 1/32, 2^22, 3*2^22 (exact in float32)
N_FLAG = (1, 2, 3)

CONFIGS = [  # dtype, scale, via, shape
    ("float64", 1.0, "module", "2d"),
    ("float64", 1.0, "functional", "3d"),
    ("float32", 1.0, "module", "3d"),
    ("float64", 1e-6, "module", "2d"),
    ("float64", 1e6, "functional", "2d"),
    ("float32", 1e3, "module", "2d"),
]


def blocks(ctx):
    A = S.alphabet(ctx)
    Ap = S.alphabet(ctx, positive=True)
    Ns = [1, 2, 3, 4] if ctx.quick else [1, 2, 3, 4, 5]
    out = []
    for measure in ("erm", "es", "qcvar", "eloss", "iso"):
        for N in Ns:
            for dtype, scale, via, shape in CONFIGS:
                params = list(PARAMS[measure])
                if measure == "eloss":
                    # exp(a |x|) must stay finite in the dtype for an inequality between values to mean anything
                    if scale > 1:
                        scale = 16.0 if dtype == "float64" else 4.0
                    lim = 600.0 if dtype == "float64" else 80.0
                    params = [a for a in params if a * scale * max(abs(v) for v in A) / S.DEN <= lim]
                out.append({"measure": measure, "N": N, "A": Ap if measure == "iso" else A, "params": params,
                            "scale": scale, "dtype": dtype, "via": via, "shape": shape})
        # heavy tail: one outcome two orders of magnitude worse than the others
        for dtype in ("float64", "float32"):
            for N in (2, 3):
                heavy = [2, 8, 800] if measure == "iso" else [-800, 0, 4]
                lim = 600.0 if dtype == "float64" else 80.0
                params = [a for a in PARAMS[measure] if measure != "eloss" or a * 100 <= lim]
                out.append({"measure": measure, "N": N, "A": heavy, "params": params, "scale": 1.0,
                            "dtype": dtype, "via": "module", "shape": "2d"})
        if measure == "iso":
            for dtype in ("float32", "float64"):
                for N in (1, 2, 3) if ctx.thorough else (1, 2):
                    out.append({"measure": measure, "N": N, "A": TINY, "params": PARAMS[measure], "scale": 8e-6,
                                "dtype": dtype, "via": "module" if dtype == "float32" else "functional", "shape": "2d"})
        if measure == "es":
            # magnitudes MIXED inside one sample: {1/32, 2^22, 3*2^22} = {0.03125, 4194304, 12582912}: the tail
            # (small outcomes) must not be polluted by the size of the outcomes outside it
            for dtype in ("float32", "float64"):
                for N in Ns:
                    out.append({"measure": measure, "N": N, "A": MIXED, "params": PARAMS[measure], "scale": 0.25,
                                "dtype": dtype, "via": "module" if N % 2 else "functional", "shape": "2d"})
        if N_FLAG:
            # ambient switch torch.use_deterministic_algorithms(True): small exhaustive subset
            for N in N_FLAG:
                for dtype, via in (("float64", "module"), ("float32", "functional")):
                    out.append({"measure": measure, "N": N, "A": Ap if measure == "iso" else A, "params": PARAMS[measure],
                                "scale": 1.0, "dtype": dtype, "via": via, "shape": "2d", "deterministic": True})
        if measure == "erm":
            # heavy tail at a large scale: one loss of 1e6 against outcomes of 0 and 5e3
            for N in (2, 3):
                out.append({"measure": measure, "N": N, "A": [-800, 0, 4], "params": PARAMS[measure], "scale": 1e4,
                            "dtype": "float64", "via": "module", "shape": "2d"})
        if measure in RISK:
            # heavy common cash component (the P&L of a funded position): x + 2^20 resp. x + 1024
            out.append({"measure": measure, "N": 3, "A": A, "params": PARAMS[measure], "scale": 1.0,
                        "dtype": "float64", "via": "module", "shape": "2d", "offset": 2.0 ** 20})
            out.append({"measure": measure, "N": 3, "A": A, "params": PARAMS[measure], "scale": 1.0,
                        "dtype": "float32", "via": "module", "shape": "2d", "offset": 1024.0})
    return out


def run(ctx):
    ctx.rule("axioms: every sample of length N over the alphabet (full product |A|^N) x parameter x scale/dtype x "
             "call form; relations over ALL ordered pairs of samples of equal length (monotone for every pointwise "
             "dominating pair; convex at t=1/4 on ordered pairs (= 3/4 with roles swapped) and t=1/2 on unordered pairs), "
             "all (sample, c) for cash invariance, all (sample, k) for homogeneity, all adjacent parameter pairs, "
             "bounds per sample; es_long: every sample of length 9..11 over 2-3 symbols x p in {.25,.3,.35} x a fixed rotation "
             "family of partners (not the full square) for convexity; ES also on a mixed-magnitude alphabet; N<=3 again under torch.use_deterministic_algorithms(True).  evaluations = relation instances + base values; non-trivial = strictly dominating "
             "pairs / non-constant samples / finite mixtures")
    ctx.assume("one-sided slack = sum of the derived value tolerances (mc/models/risk_space.tol_value) of the "
               "evaluations involved + rounding of computed inputs (x+c, t x+(1-t) y)")
    ctx.assume("expected-utility losses are compared only where exp(a|x|) is finite in the dtype")
    A = S.alphabet(ctx)
    ctx.alphabet("pl numerators/8", A)
    ctx.alphabet("positive numerators/8 (isoelastic)", S.alphabet(ctx, positive=True))
    ctx.alphabet("configs (dtype, scale, form, shape)", [list(c) for c in CONFIGS])
    for k, v in PARAMS.items():
        ctx.alphabet("param " + k, v)
    ctx.alphabet("cash c/scale", CASH)
    ctx.alphabet("homogeneity k", HOMOG)
    bl = blocks(ctx)
    long_blocks = []
    for N, sym, via in ((9, 3, "functional"), (10, 3, "module"), (11, 3 if ctx.thorough else 2, "functional")):
        Al = A[:3] if sym == 3 else [A[0], A[2]]
        M = len(Al) ** N
        long_blocks.append({"N": N, "A": Al, "params": [0.25, 0.3, 0.35], "scale": 1.0, "dtype": "float64", "via": via,
                            "rot": [1, 7, len(Al) ** (N // 2), M // 2 + 1, M - 1]})
    long_blocks.append({"N": 10, "A": [A[0], A[2]], "params": [0.25, 0.3, 0.35], "scale": 1.0, "dtype": "float32",
                        "via": "module", "rot": [1, 2 ** 5, 2 ** 9 + 1]})
    ctx.alphabet("long ES samples (N, symbols)", [[b["N"], b["A"]] for b in long_blocks])
    if ctx.quick:
        for b in bl:
            ctx.run("axioms", b)
        for b in long_blocks:
            ctx.run("es_long", b)
    else:
        ctx.run_parallel("es_long", long_blocks)
        heavy = [b for b in bl if b["N"] >= 5]
        light = [b for b in bl if b["N"] < 5]
        # split the heavy blocks per parameter so that workers are balanced
        split = []
        for b in heavy:
            for p in b["params"]:
                bb = dict(b)
                bb["params"] = [p]
                split.append(bb)
            if b["measure"] in ("es", "erm"):
                bb = dict(b)
                bb["only"] = "param"
                split.append(bb)
        ctx.run_parallel("axioms", split + light)

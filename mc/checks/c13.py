"""C13 - the time grid matches maturity and step size.  Engine: grid.

Families
  grid_steps   (M, dt) pairs x primary class x route (own simulate(time_horizon=M) / through each derivative
               class with maturity=M) x n_paths: every buffer of every underlier has shape (n_paths, T) with
               T from exact rational arithmetic on the two floats (mc.models.timegrid_ref).
  ttm          time_to_maturity(None) and time_to_maturity(i) for EVERY i in [-T, T) on the simulated grid:
               (T-1-i)*dt, strictly decreasing, exactly 0 at the last index, identical on every path,
               shapes (N, T) / (N, 1); float64 and float32 instruments.
  grid_use     payoff, every applicable feature (get(None) and get(i) for every i), Hedger.compute_hedge /
               compute_pl shapes use the same T as the buffers.
  cross_dt     a derivative with two underliers on DIFFERENT step sizes (ordered pairs of dt symbols, several
               primary classes as second underlier) x maturities: every buffer of every underlier has
               ceil(M/dt_i)+1 points for ITS OWN dt.
  resimulate   histories: every feature (and a FeatureList) is bound ONCE with .of(derivative); the same
               derivative is then simulated over every sequence of (maturity, n_paths) symbols; after each
               simulation the buffers, derivative.time_to_maturity, every bound-once feature (get(None), get(i)
               for every i) and the FeatureList must be those of the CURRENT grid (oracle for the time
               features, a freshly bound feature for the others).
  long_grid    BrownianStock (own simulate and through EuropeanOption, n_paths=1) on long grids: for every dt
               symbol every k up to Klong whose float quotient M/dt is not exactly k (thorough: every k), M
               written as k*dt, k/den and decimal literal: k+1 points and time_to_maturity(0) == k*dt.
  local_vol    LocalVolatilityStock with time-dependent sigma_fn: the function must be called with exactly the
               times i*dt, i = 0..T-1, once each and in order; the volatility buffer column i must equal
               sigma_fn(i*dt, spot[:, i]) - i.e. it lives on the same grid as time_to_maturity = (T-1-i)*dt.
  swap         histories over the operations {simulate, replace the underlier by attribute assignment (three
               stocks with other dt / class, one of them carrying paths from earlier use)}: after every
               simulate, ul(), .underlier, underliers(), every buffer, time_to_maturity, moneyness, payoff,
               features (bound before and after the swap) and the hedger are on the grid of the CURRENT stock;
               the replaced stocks are not touched.
  forward_start EuropeanForwardStartOption on integer and non-integer M/dt x start times on and between grid
               times: payoff == max(S[-1]/S[floor(start/dt)] - K, 0) on the simulated buffer.
  hedge_grids  compute_hedge with hedge lists whose instruments (stock, proxy stock, listed option on a proxy stock)
               are on different grids must raise ValueError; on equal grids the hedge has that grid's T columns.
  tensor_dt    dt given as a 0-dim tensor of the series dtype, >= 3 simulate calls on ONE instrument: the ORIGINAL
               dt's point count at every call, stock.dt bitwise unchanged.
  hedger_reuse histories over {compute_hedge(A), compute_hedge(B), get_input(A, .), get_input(B, .)} on one Hedger:
               get_input(X, i) equals a freshly bound FeatureList on X (time column = oracle), hedge has X's grid.
  listed_shared histories over {listed.simulate, other_derivative.simulate, stock.simulate, stock.register_buffer} on a
               stock shared by a listed option (BS pricer) and an exotic: listed.spot, the spot / underlier_spot
               features and compute_hedge(exotic, hedge=[stock, listed]) always follow the CURRENT underlier grid.
  payoff_grid  ALL scripted paths: American binary / lookback payoffs agree with the last step of the library's own
               running-extremum features (max_moneyness, Barrier) over the same T points.
  payoff_last_point  European / European binary / variance swap / forward start payoffs over the (M, dt) alphabet
               (non-integer ratios, quotients rounding below an integer): equal to the reference payoff on the LAST
               registered grid point, also after only that point was moved.
  multi_hedge  H = 2, 3 hedging instruments with state-independent inputs and a Linear model with distinct rows:
               hedge[:, h, t] == model(get_input(d, t))[h], last column = previous one.
"""
from __future__ import annotations

import itertools
from decimal import Decimal
from fractions import Fraction

import torch

from mc.core import market
from mc.models import timegrid_ref as R

FAMILIES = {}


def family(fn):
    FAMILIES[fn.__name__] = fn
    return fn


DT = {"float32": torch.float32, "float64": torch.float64, "default": None}   # default: the library default (float32)
PRIMARIES = ["brownian", "merton", "kou", "rough_bergomi", "vasicek", "local_vol", "cir", "heston"]
SLOW = {"vasicek", "local_vol", "cir", "heston"}   # python loop over the steps: cost ~ T per call
DERIVS = list(market.ALL_DERIVATIVE_KINDS)

# dt symbols: (label, value, denominator or None, decimal literal or None)
DTS = [
    ("1/250", 1 / 250, 250, "0.004"),
    ("1/365", 1 / 365, 365, None),
    ("1/12", 1 / 12, 12, None),
    ("1/52", 1 / 52, 52, None),
    ("0.1", 0.1, 10, "0.1"),
    ("0.01", 0.01, 100, "0.01"),
    ("0.25", 0.25, 4, "0.25"),
    ("1/256", 1 / 256, 256, "0.00390625"),
    # a step whose reciprocal is not an integer ("steps per year" does not exist): seeded C13-27
    ("0.3", 0.3, None, "0.3"),
]
EXTRA_DTS = [("1/360", 1 / 360, 360, None), ("1/252", 1 / 252, 252, None), ("0.05", 0.05, 20, "0.05"),
             ("1/24", 1 / 24, 24, None), ("0.002", 0.002, 500, "0.002"), ("1/7", 1 / 7, 7, None),
             ("0.003", 0.003, None, "0.003"), ("0.0075", 0.0075, None, "0.0075")]


def pairs_for(dtsym, K):
    """All (M, dt, form, k) for one dt symbol; the same float M written in two ways is kept once
    (first form wins) - the implementation only sees the float."""
    label, dt, den, lit = dtsym
    seen = {}
    for k in range(1, K + 1):
        forms = [("k*dt", k * dt)]
        if den is not None:
            forms.append(("k/den", k / den))
        if lit is not None:
            forms.append(("literal", float(Decimal(lit) * k)))
        forms.append(("(k-1/2)*dt", (k - 0.5) * dt))
        for form, M in forms:
            if M not in seen:
                seen[M] = [M, dt, form, k]
    return list(seen.values())


def _deriv_kwargs(kind, M, dt):
    if kind == "variance_swap":
        return {"strike": 0.04, "maturity": M}
    if kind == "forward_start":
        return {"strike": 1.0, "maturity": M, "start": 0.0}
    return {"strike": 1.0, "maturity": M}


def _two_underlier_class():
    """A user-style derivative on two underliers (pfhedge has no built-in one): the spread of the terminal prices."""
    from pfhedge.instruments import BaseDerivative

    class SpreadForward(BaseDerivative):
        def __init__(self, first, second, maturity):
            super().__init__()
            self.register_underlier("first", first)
            self.register_underlier("second", second)
            self.maturity = maturity

        def payoff_fn(self):
            return self.ul(0).spot[..., -1] - self.ul(1).spot[..., -1]

    return SpreadForward


def _simulate(kind, route, M, dt, n_paths, dtype):
    p = market.primary(kind, dtype=dtype, dt=dt)
    if route == "own":
        p.simulate(n_paths=n_paths, time_horizon=M)
        return p, None
    if route == "two_underliers":
        second = market.primary("brownian", dtype=dtype, dt=dt, sigma=0.3)
        d = _two_underlier_class()(p, second, M)
        d.simulate(n_paths=n_paths)
        return [p, second], d
    d = market.derivative(route, p, **_deriv_kwargs(route, M, dt))
    d.simulate(n_paths=n_paths)
    return p, d


def _site(kind, route):
    import pfhedge.instruments as I
    if route == "own":
        return type(market.primary(kind, dt=0.1)).__name__ + ".simulate"
    if route == "two_underliers":
        return "BaseDerivative.simulate"
    cls = {"european": I.EuropeanOption, "lookback": I.LookbackOption, "european_binary": I.EuropeanBinaryOption,
           "american_binary": I.AmericanBinaryOption, "forward_start": I.EuropeanForwardStartOption,
           "variance_swap": I.VarianceSwap}[route]
    return cls.__name__ + ".simulate"


@family
def grid_steps(ctx, block):
    kind, route, n_paths = block["primary"], block["route"], block["n_paths"]
    dtype = DT[block.get("dtype", "float64")]
    site = _site(kind, route)
    torch.manual_seed(0)  # values are irrelevant; shapes do not depend on the draws
    n_int = 0
    for (M, dt, form, k) in block["cases"]:
        T, cls, kk = R.expected_points(M, dt)
        if T is None:
            raise AssertionError(f"enumeration produced an undefined-zone pair {(M, dt)}")
        try:
            p, d = _simulate(kind, route, M, dt, n_paths, dtype)
        except Exception as e:      # a simulation of a valid (M, dt) must not raise; classify and go on
            ctx.tick(1)
            ctx.violation(site, f"raises:{type(e).__name__}",
                          f"simulating M={M!r} [{form}, k={k}] with dt={dt!r} raised {type(e).__name__}: {str(e)[:200]} "
                          f"({T} time points expected)", observed=repr(e)[:300], expected=T,
                          block=dict(block, cases=[[M, dt, form, k]]))
            continue
        if isinstance(p, list):     # every underlier of the derivative
            shapes = {f"{i}.{name}": tuple(b.shape) for i, u in enumerate(d.underliers()) for name, b in u.named_buffers()}
            want = {f"0.{n}" for n in market.BUFFERS[kind]} | {"1.spot"}
        else:
            shapes = {name: tuple(b.shape) for name, b in p.named_buffers()}
            want = set(market.BUFFERS[kind])
        ctx.tick(1)
        if cls == "integer" and M / dt != kk:
            n_int += 1      # the float quotient is not the integer itself: rounding-sensitive pair
        names = set(shapes)
        if names != want:
            ctx.violation(site, "buffer_names", f"buffers {sorted(names)} != {sorted(want)}",
                          observed=sorted(names), expected=sorted(want),
                          block=dict(block, cases=[[M, dt, form, k]]))
            continue
        obs_T = {s[1] if len(s) == 2 else None for s in shapes.values()}
        bad_n = [s for s in shapes.values() if len(s) != 2 or s[0] != n_paths]
        if bad_n or len(obs_T) != 1:
            ctx.violation(site, "buffers_disagree", f"buffer shapes {shapes} for n_paths={n_paths}",
                          observed={k_: list(v) for k_, v in shapes.items()}, expected=[n_paths, T],
                          block=dict(block, cases=[[M, dt, form, k]]))
            continue
        oT = obs_T.pop()
        ctx.outcome((kind, route, oT - T))
        if oT != T:
            c = R.classify_steps(M, dt, oT)
            ctx.violation(site, c,
                          f"{site.split('.')[0]}(dt={dt!r}) {'simulate(time_horizon' if route == 'own' else '(maturity'}="
                          f"{M!r}) [{form}, k={k}] gives {oT} time points; M/dt = {float(R.quotient(M, dt))!r} "
                          f"(exact quotient of the floats {'within 4 ulp of' if cls == 'integer' else 'not near'} "
                          f"{kk}) so {T} expected; float quotient M/dt = {M / dt!r}",
                          observed=oT, expected=T, block=dict(block, cases=[[M, dt, form, k]]))
    ctx.add("distinct_nontrivial", n_int)
    if len(ctx.samples) < 2 and block["cases"]:
        M, dt, form, k = block["cases"][len(block["cases"]) // 2]
        ctx.sample({"family": "grid_steps", "primary": kind, "route": route, "M": M, "dt": dt, "form": form, "k": k,
                    "expected_points": R.expected_points(M, dt)[0]})


@family
def ttm(ctx, block):
    kind, route, n_paths = block["primary"], block["route"], block["n_paths"]
    dtype = DT[block["dtype"]]
    eps = torch.finfo(dtype).eps
    site = {"european": "EuropeanOption", "lookback": "LookbackOption", "european_binary": "EuropeanBinaryOption",
            "american_binary": "AmericanBinaryOption"}[route] + ".time_to_maturity"
    torch.manual_seed(0)
    for (M, dt, form, k) in block["cases"]:
        p, d = _simulate(kind, route, M, dt, n_paths, dtype)
        T = p.spot.size(1)          # the grid the simulation produced (its length is grid_steps' business)
        mini = dict(block, cases=[[M, dt, form, k]])
        all_i = T <= block.get("all_indices_up_to", 10 ** 9)
        t_all = d.time_to_maturity()
        ctx.tick(1, nontrivial=1)
        if tuple(t_all.shape) != (n_paths, T) or t_all.dtype != dtype:
            ctx.violation(site, "shape_or_dtype_all", f"time_to_maturity() shape {tuple(t_all.shape)} {t_all.dtype}",
                          observed=[list(t_all.shape), str(t_all.dtype)], expected=[[n_paths, T], str(dtype)], block=mini)
            continue
        rows = t_all.tolist()
        if any(r != rows[0] for r in rows[1:]):
            ctx.violation(site, "differs_between_paths", "time_to_maturity() differs between paths",
                          observed=rows[:2], expected="identical rows", block=mini)
        row = rows[0]
        # tolerance: fl(i*dt) (dt rounded to the dtype first when it is float32: rel. error <= eps each),
        # then fl(t[-1] - t[i]): |error| <= 2.5*eps*(T-1)*dt; see DESIGN "<= 2 ulp * M"
        horizon = (T - 1) * dt
        tol = 3 * eps * horizon
        bad = None
        for i in range(T):
            e = R.time_to_maturity(T, i, dt)
            if abs(Fraction(row[i]) - e) > tol:
                bad = ("value", i, row[i], float(e))
                break
        if bad is None and row[-1] != 0.0:
            bad = ("last_not_zero", T - 1, row[-1], 0.0)
        if bad is None and any(not (row[i] > row[i + 1]) for i in range(T - 1)):
            i = [i for i in range(T - 1) if not (row[i] > row[i + 1])][0]
            bad = ("not_decreasing", i, row[i:i + 2], "strictly decreasing")
        if bad:
            ctx.violation(site, f"all_{bad[0]}", f"time_to_maturity()[{bad[1]}] = {bad[2]} for T={T}, dt={dt!r} "
                          f"({block['dtype']}); expected {bad[3]}", observed=bad[2], expected=bad[3], block=mini)
        ctx.outcome((route, T, round(row[0], 12)))
        if not all_i:
            continue
        for i in range(-T, T):
            t_i = d.time_to_maturity(i)
            ctx.tick(1, nontrivial=1 if i < 0 else 0)
            e = R.time_to_maturity(T, i, dt)
            if tuple(t_i.shape) != (n_paths, 1) or t_i.dtype != dtype:
                ctx.violation(site, "shape_or_dtype_step", f"time_to_maturity({i}) shape {tuple(t_i.shape)} {t_i.dtype}",
                              observed=[list(t_i.shape), str(t_i.dtype)], expected=[[n_paths, 1], str(dtype)],
                              block=mini)
                break
            vals = t_i.flatten().tolist()
            # same absolute tolerance as for the full grid (an implementation may slice the full grid)
            ok = all(abs(Fraction(v) - e) <= tol for v in vals) and (e != 0 or all(v == 0.0 for v in vals))
            if not ok:
                cls = "step_value_negative_index" if i < 0 else "step_value"
                ctx.violation(site, cls, f"time_to_maturity({i}) = {vals} for T={T}, dt={dt!r} ({block['dtype']}); "
                              f"expected (T-1-(i mod T))*dt = {float(e)!r}", observed=vals, expected=float(e), block=mini)
                break
    if len(ctx.samples) < 4 and block["cases"]:
        M, dt, form, k = block["cases"][0]
        ctx.sample({"family": "ttm", "route": route, "M": M, "dt": dt, "dtype": block["dtype"]})


def _features_for(kind, route):
    names = ["zeros", "empty", "underlier_spot", "prev_hedge"]
    if route in market.OPTION_KINDS:
        names += ["moneyness", "log_moneyness", "max_moneyness", "max_log_moneyness", "time_to_maturity", "expiry_time"]
    if kind in ("brownian", "heston", "local_vol", "rough_bergomi"):
        names += ["volatility"]
    if kind in ("brownian", "heston", "rough_bergomi"):
        names += ["variance"]
    return names


@family
def grid_use(ctx, block):
    from pfhedge.features import get_feature
    from pfhedge.nn import BlackScholes, Hedger, Naked
    kind, route, n_paths = block["primary"], block["route"], block["n_paths"]
    dtype = DT[block.get("dtype", "float64")]
    torch.manual_seed(0)
    for (M, dt, form, k) in block["cases"]:
        p, d = _simulate(kind, route, M, dt, n_paths, dtype)
        T = p.spot.size(1)
        mini = dict(block, cases=[[M, dt, form, k]])
        pay = d.payoff()
        ctx.tick(1, nontrivial=1)
        if tuple(pay.shape) != (n_paths,):
            ctx.violation(type(d).__name__ + ".payoff", "shape", f"payoff shape {tuple(pay.shape)}",
                          observed=list(pay.shape), expected=[n_paths], block=mini)
        # list the derivative with a trivial pricer so that the "spot" feature (price of the derivative) exists
        d.list(lambda dd: dd.ul().spot * 0.5)
        feats = [(n, get_feature(n)) for n in _features_for(kind, route) + ["spot"] if n != "prev_hedge"]
        try:
            from pfhedge.features.features import Ones
            feats.append(("ones", Ones()))
        except ImportError:
            pass
        eps = torch.finfo(dtype).eps
        for name, feat in feats:
            f = feat.of(d)
            g = f.get(None)
            ctx.tick(1, nontrivial=1)
            if tuple(g.shape) != (n_paths, T, 1):
                ctx.violation(f"features.{name}", "shape_all", f"{name}.get(None) shape {tuple(g.shape)}, buffers have "
                              f"T={T}", observed=list(g.shape), expected=[n_paths, T, 1], block=mini)
                continue
            if T <= 13 or block.get("all_indices"):
                # every step index the method accepts: [-T, T); the running-maximum features take the prefix
                # [: i + 1], which is empty for i = -1 (IndexError on the unchanged tree as well): [-T, -1) there
                lo = -T
                idx = [i for i in range(lo, T) if not (name.startswith("max_") and i == -1)]
                for i in idx:
                    try:
                        gi = f.get(i)
                    except Exception as e:
                        ctx.violation(f"features.{name}", f"step_raises:{type(e).__name__}" + ("_negative_index" if i < 0 else ""),
                                      f"{name}.get({i}) on a grid of T={T}: {type(e).__name__}: {str(e)[:160]}",
                                      observed=repr(e)[:200], expected=[n_paths, 1, 1], block=mini)
                        break
                    ctx.tick(1, nontrivial=1 if i < 0 else 0)
                    neg = "_negative_index" if i < 0 else ""
                    if tuple(gi.shape) != (n_paths, 1, 1):
                        ctx.violation(f"features.{name}", "shape_step" + neg, f"{name}.get({i}) shape {tuple(gi.shape)} on a "
                                      f"grid of T={T}", observed=list(gi.shape), expected=[n_paths, 1, 1], block=mini)
                        break
                    if name == "empty":
                        continue
                    col = g[:, [i]]
                    if name in TIME_FEATURES:   # get(i) and get(None) round differently: same tolerance as the ttm family
                        same = bool(((gi - col).abs() <= 3 * eps * (T - 1) * dt).all())
                    else:
                        same = _same(gi, col)
                    if not same:
                        ctx.violation(f"features.{name}", "step_vs_all" + neg, f"{name}.get({i}) = {gi.flatten().tolist()} is not "
                                      f"column {i} of {name}.get(None) = {col.flatten().tolist()} (T={T})",
                                      observed=gi.flatten().tolist(), expected=col.flatten().tolist(), block=mini)
                        break
        models = [("naked", Naked(1), ["zeros"]), ("naked_prev", Naked(1), ["zeros", "prev_hedge"])]
        if route in market.OPTION_KINDS and kind in ("brownian", "heston") and not (block.get("light") and kind == "heston"):
            m = BlackScholes(d)
            models.append(("bs", m, m.inputs()))
        for mname, model, inputs in models:
            hedger = Hedger(model, inputs)
            with torch.no_grad():
                h = hedger.compute_hedge(d)
                pl = hedger.compute_pl(d)
            ctx.tick(2, nontrivial=2)
            if "prev_hedge" not in inputs:
                for i in (-1, 0, T - 1):
                    if i == -1 and any(str(x).startswith("max_") for x in inputs):
                        continue    # running-maximum features do not accept -1 (see above)
                    try:
                        gi = hedger.get_input(d, i)
                        good = tuple(gi.shape) == (n_paths, 1, len(inputs))
                        obs = list(gi.shape)
                    except Exception as e:
                        good, obs = False, repr(e)[:200]
                    ctx.tick(1)
                    if not good:
                        ctx.violation("Hedger.get_input", f"step_{mname}" + ("_negative_index" if i < 0 else ""),
                                      f"Hedger.get_input(derivative, {i}) with inputs {list(map(str, inputs))} on a grid of "
                                      f"T={T}: {obs}", observed=obs, expected=[n_paths, 1, len(inputs)], block=mini)
                        break
            if tuple(h.shape) != (n_paths, 1, T):
                ctx.violation("Hedger.compute_hedge", f"shape_{mname}", f"hedge shape {tuple(h.shape)}, buffers have T={T}",
                              observed=list(h.shape), expected=[n_paths, 1, T], block=mini)
            if tuple(pl.shape) != (n_paths,):
                ctx.violation("Hedger.compute_pl", f"shape_{mname}", f"pl shape {tuple(pl.shape)}",
                              observed=list(pl.shape), expected=[n_paths], block=mini)
        ctx.outcome((kind, route, T))


# ----------------------------------------------------------------------------
# two underliers on different step sizes
# ----------------------------------------------------------------------------

def cross_pairs(dts, Kc):
    """(M, dt1, dt2, form, k) for every ordered pair of distinct dt symbols; M a whole (or half) number of
    steps of the first or of the second underlier.  Pairs whose quotient M/dt_i falls in the zone the
    property leaves undefined (between 4 ulp and 1e-6 of an integer) are not produced."""
    out, skipped = [], 0
    for a in dts:
        for b in dts:
            if a[1] == b[1]:
                continue
            seen = set()
            for k in range(1, Kc + 1):
                for form, M in (("k*dt1", k * a[1]), ("k*dt2", k * b[1]), ("(k-1/2)*dt1", (k - 0.5) * a[1])):
                    if M in seen:
                        continue
                    seen.add(M)
                    if R.expected_points(M, a[1])[0] is None or R.expected_points(M, b[1])[0] is None:
                        skipped += 1
                        continue
                    out.append([M, a[1], b[1], form, k])
    return out, skipped


@family
def cross_dt(ctx, block):
    dtype = DT[block.get("dtype", "float64")]
    k1, k2, n_paths = block["first"], block["second"], block["n_paths"]
    cls = _two_underlier_class()
    torch.manual_seed(0)
    for (M, dt1, dt2, form, k) in block["cases"]:
        exp = [R.expected_points(M, dt1)[0], R.expected_points(M, dt2)[0]]
        mini = dict(block, cases=[[M, dt1, dt2, form, k]])
        if max(exp) > block.get("max_points", 10 ** 9):
            continue
        first = market.primary(k1, dtype=dtype, dt=dt1)
        second = market.primary(k2, dtype=dtype, dt=dt2)
        d = cls(first, second, M)
        ctx.tick(1, nontrivial=1 if exp[0] != exp[1] else 0)
        try:
            d.simulate(n_paths=n_paths)
        except Exception as e:
            ctx.violation("BaseDerivative.simulate", f"raises:{type(e).__name__}",
                          f"two underliers dt=({dt1!r}, {dt2!r}), maturity {M!r}: {type(e).__name__}: {str(e)[:200]}",
                          observed=repr(e)[:300], expected=exp, block=mini)
            continue
        for idx, (u, kind, dt) in enumerate(((first, k1, dt1), (second, k2, dt2))):
            shapes = {name: tuple(b.shape) for name, b in u.named_buffers()}
            bad = {n: list(sh) for n, sh in shapes.items() if sh != (n_paths, exp[idx])}
            missing = set(market.BUFFERS[kind]) - set(shapes)
            ctx.outcome((k1, k2, idx, exp[idx] - (list(shapes.values())[0][1] if shapes else -1)))
            if bad or missing:
                obs_T = sorted({sh[1] for sh in shapes.values() if len(sh) == 2})
                if len(obs_T) == 1 and not missing:
                    c = R.classify_steps(M, dt, obs_T[0])
                else:
                    c = "buffers_disagree"
                which = "first" if idx == 0 else "second"
                ctx.violation("BaseDerivative.simulate", f"{which}_underlier_other_dt_{c}",
                              f"derivative on ({type(first).__name__}(dt={dt1!r}), {type(second).__name__}(dt={dt2!r})), "
                              f"maturity {M!r} [{form}, k={k}]: {which} underlier's buffers {shapes}, expected "
                              f"{exp[idx]} time points for its own dt={dt!r} (M/dt = {float(R.quotient(M, dt))!r})",
                              observed=bad or sorted(missing), expected=[n_paths, exp[idx]], block=mini)
    if len(ctx.samples) < 6 and block["cases"]:
        M, dt1, dt2, form, k = block["cases"][len(block["cases"]) // 2]
        ctx.sample({"family": "cross_dt", "first": k1, "second": k2, "M": M, "dt1": dt1, "dt2": dt2,
                    "expected_points": [R.expected_points(M, dt1)[0], R.expected_points(M, dt2)[0]]})


# ----------------------------------------------------------------------------
# histories: features bound once, derivative simulated again and again
# ----------------------------------------------------------------------------

TIME_FEATURES = ("time_to_maturity", "expiry_time")


def _same(a, b):
    return a.shape == b.shape and torch.equal(a.nan_to_num(nan=-7.0), b.nan_to_num(nan=-7.0))


@family
def resimulate(ctx, block):
    from pfhedge.features import FeatureList, get_feature
    kind, route, dt = block["primary"], block["route"], block["dt"]
    dtype = DT[block["dtype"]]
    eps = torch.finfo(dtype).eps
    names = [n for n in _features_for(kind, route) if n != "prev_hedge"]
    if block.get("light"):
        names = [n for n in names if n in TIME_FEATURES + ("underlier_spot", "log_moneyness", "volatility")]
    is_option = route in market.OPTION_KINDS
    torch.manual_seed(0)
    for hist in block["histories"]:
        p = market.primary(kind, dtype=dtype, dt=dt)
        d = market.derivative(route, p, **_deriv_kwargs(route, hist[0][0] * dt, dt))
        bound = {n: get_feature(n).of(d) for n in names}            # bound ONCE, before any simulation
        flist = FeatureList(["log_moneyness", "time_to_maturity"]).of(d) if is_option else None
        ctx.add("traces_validated_against_impl", 1)
        for r, (mult, n_paths) in enumerate(hist):
            M = mult * dt
            d.maturity = M
            T = R.expected_points(M, dt)[0]
            when = "first_simulation" if r == 0 else "after_resimulation"
            mini = dict(block, histories=[hist[:r + 1]])
            ctx.add("transitions", 1)
            d.simulate(n_paths=n_paths)
            shapes = {n: tuple(b.shape) for n, b in p.named_buffers()}
            ctx.tick(1, nontrivial=1 if r > 0 else 0)
            if any(sh != (n_paths, T) for sh in shapes.values()):
                ctx.violation(type(d).__name__ + ".simulate", f"{when}_buffer_shape",
                              f"round {r}: maturity {M!r}, n_paths {n_paths}, dt {dt!r}: buffers {shapes}, expected "
                              f"({n_paths}, {T})", observed={k_: list(v) for k_, v in shapes.items()},
                              expected=[n_paths, T], block=mini)
                break
            oracle = [R.time_to_maturity(T, i, dt) for i in range(T)]
            tol = 3 * eps * (T - 1) * dt

            def check_time(site, label, get):
                """get(None) -> (n_paths, T) values, get(i) -> (n_paths,) values; both against the oracle."""
                try:
                    g = get(None)
                except Exception as e:
                    return ctx.violation(site, f"{when}_raises:{type(e).__name__}",
                                         f"round {r} (M={M!r}, N={n_paths}, T={T}): {label}(None) raised {type(e).__name__}: "
                                         f"{str(e)[:160]}", observed=repr(e)[:200], expected=[n_paths, T], block=mini)
                ctx.tick(1, nontrivial=1 if r > 0 else 0)
                if tuple(g.shape) != (n_paths, T):
                    return ctx.violation(site, f"{when}_shape_all",
                                         f"round {r} (M={M!r}, N={n_paths}, dt={dt!r}): {label}(None) has grid "
                                         f"{tuple(g.shape)}, the underlier grid is ({n_paths}, {T})",
                                         observed=list(g.shape), expected=[n_paths, T], block=mini)
                rows = g.tolist()
                for row in rows:
                    if any(abs(Fraction(row[i]) - oracle[i]) > tol for i in range(T)) or row[-1] != 0.0:
                        return ctx.violation(site, f"{when}_value_all",
                                             f"round {r} (M={M!r}, N={n_paths}, dt={dt!r}): {label}(None) = {row}, expected "
                                             f"(T-1-i)*dt = {[float(o) for o in oracle]}", observed=row,
                                             expected=[float(o) for o in oracle], block=mini)
                for i in range(-T, T):
                    e = R.time_to_maturity(T, i, dt)
                    try:
                        gi = get(i)
                    except Exception as ex:
                        return ctx.violation(site, f"{when}_raises:{type(ex).__name__}",
                                             f"round {r} (M={M!r}, N={n_paths}, T={T}): {label}({i}) raised "
                                             f"{type(ex).__name__}: {str(ex)[:160]}", observed=repr(ex)[:200],
                                             expected=float(e), block=mini)
                    ctx.tick(1)
                    if tuple(gi.shape) != (n_paths,):
                        return ctx.violation(site, f"{when}_shape_step",
                                             f"round {r} (M={M!r}, N={n_paths}): {label}({i}) has {tuple(gi.shape)[0]} paths",
                                             observed=list(gi.shape), expected=[n_paths], block=mini)
                    vals = gi.tolist()
                    if not (all(abs(Fraction(x) - e) <= tol for x in vals) and (e != 0 or all(x == 0.0 for x in vals))):
                        return ctx.violation(site, f"{when}_value_step",
                                             f"round {r} (M={M!r}, N={n_paths}, dt={dt!r}, T={T}): {label}({i}) = {vals[0]!r}, "
                                             f"expected (T-1-(i mod T))*dt = {float(e)!r}", observed=vals, expected=float(e),
                                             block=mini)

            if is_option:
                check_time(type(d).__name__ + ".time_to_maturity", "time_to_maturity",
                           lambda i: d.time_to_maturity() if i is None else d.time_to_maturity(i)[:, 0])
            for n in names:
                f = bound[n]
                if n in TIME_FEATURES:
                    def get(i, f=f):
                        g = f.get(i)
                        if g.dim() != 3 or g.size(-1) != 1 or (i is not None and g.size(1) != 1):
                            raise AssertionError(f"shape {tuple(g.shape)}")
                        return g[:, :, 0] if i is None else g[:, 0, 0]
                    try:
                        check_time(f"features.{n}", f"{n}.get", get)
                    except AssertionError as e:
                        ctx.violation(f"features.{n}", f"{when}_shape_rank", f"round {r}: {n}.get: {e}",
                                      observed=str(e), expected="(N, T or 1, 1)", block=mini)
                    continue
                fresh = get_feature(n).of(d)
                try:
                    g, h = f.get(None), fresh.get(None)
                    ctx.tick(1, nontrivial=1 if r > 0 else 0)
                    ok = tuple(g.shape) == (n_paths, T, 1) and (n == "empty" or _same(g, h))
                    if ok:
                        for i in range(T):
                            gi = f.get(i)
                            ctx.tick(1)
                            if tuple(gi.shape) != (n_paths, 1, 1) or not (n == "empty" or _same(gi, fresh.get(i))):
                                ok = False
                                break
                except Exception as e:
                    ctx.violation(f"features.{n}", f"{when}_raises:{type(e).__name__}",
                                  f"round {r} (M={M!r}, N={n_paths}): {n} bound once: {type(e).__name__}: {str(e)[:160]}",
                                  observed=repr(e)[:200], expected="value of the current grid", block=mini)
                    continue
                if not ok:
                    ctx.violation(f"features.{n}", f"{when}_differs_from_fresh",
                                  f"round {r} (M={M!r}, N={n_paths}, T={T}): feature {n} bound once before the simulations "
                                  f"returns shape {tuple(g.shape)}; a freshly bound one {tuple(h.shape)} / other values",
                                  observed=list(g.shape), expected=[n_paths, T, 1], block=mini)
            if flist is not None:
                try:
                    g = flist.get(None)
                    ctx.tick(1, nontrivial=1 if r > 0 else 0)
                    bad = tuple(g.shape) != (n_paths, T, 2)
                    if not bad:
                        col = g[0, :, 1].tolist()
                        bad = any(abs(Fraction(col[i]) - oracle[i]) > tol for i in range(T)) or col[-1] != 0.0
                        bad = bad or not _same(g[:, :, 0], d.log_moneyness())
                    for i in (range(T) if not bad else ()):
                        gi = flist.get(i)
                        ctx.tick(1)
                        if tuple(gi.shape) != (n_paths, 1, 2) or abs(Fraction(float(gi[0, 0, 1])) - oracle[i]) > tol \
                                or not _same(gi[:, 0, 0], d.log_moneyness(i)[:, 0]):
                            bad = True
                            break
                    if bad:
                        ctx.violation("features.FeatureList", f"{when}_inconsistent_grid",
                                      f"round {r} (M={M!r}, N={n_paths}, T={T}): FeatureList([log_moneyness, time_to_maturity]) "
                                      f"bound once gives shape {tuple(g.shape)} / a time column that is not (T-1-i)*dt",
                                      observed=list(g.shape), expected=[n_paths, T, 2], block=mini)
                except Exception as e:
                    ctx.violation("features.FeatureList", f"{when}_raises:{type(e).__name__}",
                                  f"round {r} (M={M!r}, N={n_paths}, T={T}): FeatureList([log_moneyness, time_to_maturity]) bound "
                                  f"once: {type(e).__name__}: {str(e)[:160]}", observed=repr(e)[:200],
                                  expected=[n_paths, T, 2], block=mini)
            ctx.outcome((route, kind, r, T, n_paths))
        ctx.add("states", len(hist))
    if len(ctx.samples) < 6 and block["histories"]:
        ctx.sample({"family": "resimulate", "primary": kind, "route": route, "dt": dt,
                    "history[(M/dt, n_paths)]": block["histories"][len(block["histories"]) // 2]})


# ----------------------------------------------------------------------------
# long grids
# ----------------------------------------------------------------------------

def long_pairs(dtsym, k_lo, k_hi, only_sensitive):
    label, dt, den, lit = dtsym
    seen = {}
    for k in range(k_lo, k_hi + 1):
        forms = [("k*dt", k * dt)]
        if den is not None:
            forms.append(("k/den", k / den))
        if lit is not None:
            forms.append(("literal", float(Decimal(lit) * k)))
        for form, M in forms:
            if M in seen or (only_sensitive and M / dt == k):
                continue
            seen[M] = [M, dt, form, k]
    return list(seen.values())


@family
def long_grid(ctx, block):
    dtype = DT[block.get("dtype", "float64")]
    eps = torch.finfo(dtype).eps
    torch.manual_seed(0)
    for (M, dt, form, k) in block["cases"]:
        T, cls, kk = R.expected_points(M, dt)
        if T is None:
            raise AssertionError(f"enumeration produced an undefined-zone pair {(M, dt)}")
        mini = dict(block, cases=[[M, dt, form, k]])
        p = market.primary("brownian", dtype=dtype, dt=dt)
        p.simulate(n_paths=1, time_horizon=M)
        oT = p.spot.size(1)
        ctx.tick(1, nontrivial=1 if M / dt != kk else 0)
        ctx.outcome(("long", oT - T))
        if tuple(p.spot.shape) != (1, T):
            ctx.violation("BrownianStock.simulate", "long_grid_" + R.classify_steps(M, dt, oT),
                          f"BrownianStock(dt={dt!r}).simulate(time_horizon={M!r}) [{form}, k={k}] gives {oT} time points, "
                          f"{T} expected: M/dt is {kk} up to {float(abs(R.quotient(M, dt) - kk) / kk):.1e} relative, float "
                          f"quotient {M / dt!r}", observed=oT, expected=T, block=mini)
            continue
        if not block.get("through_option"):
            continue
        d = market.derivative("european", p, maturity=M)
        d.simulate(n_paths=1)
        t0 = d.time_to_maturity(0)
        tl = d.time_to_maturity(-1)
        ctx.tick(1, nontrivial=1)
        e = (T - 1) * Fraction(dt)
        if tuple(d.ul().spot.shape) != (1, T) or tuple(t0.shape) != (1, 1) or abs(Fraction(float(t0)) - e) > 3 * eps * e \
                or float(tl) != 0.0:
            ctx.violation("EuropeanOption.time_to_maturity", "long_grid_first_step",
                          f"EuropeanOption(BrownianStock(dt={dt!r}), maturity={M!r}) [{form}, k={k}]: grid "
                          f"{tuple(d.ul().spot.shape)}, time_to_maturity(0) = {float(t0)!r} (expected k*dt = {float(e)!r}), "
                          f"time_to_maturity(-1) = {float(tl)!r}", observed=[list(d.ul().spot.shape), float(t0), float(tl)],
                          expected=[[1, T], float(e), 0.0], block=mini)


# ----------------------------------------------------------------------------
# local volatility: the volatility buffer lives on the grid 0, dt, ..., (T-1)*dt
# ----------------------------------------------------------------------------

SIGMA_FNS = {
    "time": lambda t, s: 0.125 + t + 0.0 * s,
    "time_and_spot": lambda t, s: 0.125 + 0.5 * t + 0.0625 * s,
    "spot": lambda t, s: 0.125 + 0.0625 * s,
}


@family
def local_vol(ctx, block):
    dtype = DT[block["dtype"]]
    eps = torch.finfo(dtype).eps
    fn = SIGMA_FNS[block["sigma_fn"]]
    n_paths = block["n_paths"]
    torch.manual_seed(0)
    for (M, dt, form, k) in block["cases"]:
        T = R.expected_points(M, dt)[0]
        mini = dict(block, cases=[[M, dt, form, k]])
        calls = []

        def recording(t, s, calls=calls):
            calls.append((float(t), tuple(s.shape)))
            return fn(t, s)

        p = market.primary("local_vol", dtype=dtype, dt=dt, sigma_fn=recording)
        if block["route"] == "own":
            p.simulate(n_paths=n_paths, time_horizon=M)
            d = None
        else:
            d = market.derivative(block["route"], p, **_deriv_kwargs(block["route"], M, dt))
            d.simulate(n_paths=n_paths)
        ctx.tick(1, nontrivial=1)
        spot, vol = p.spot, p.volatility
        if tuple(spot.shape) != (n_paths, T) or tuple(vol.shape) != (n_paths, T):
            ctx.violation("LocalVolatilityStock.simulate", "buffer_shape", f"spot {tuple(spot.shape)} volatility "
                          f"{tuple(vol.shape)}, expected ({n_paths}, {T})", observed=[list(spot.shape), list(vol.shape)],
                          expected=[n_paths, T], block=mini)
            continue
        times = [c[0] for c in calls]
        # fl(dt * i) in the dtype (float32: dt rounded to the dtype first): relative error <= 1.5*eps
        ok_times = len(times) == T and all(abs(Fraction(times[i]) - i * Fraction(dt)) <= 1.5 * eps * i * dt for i in range(T))
        ctx.outcome(("lv", block["sigma_fn"], T, len(times)))
        if not ok_times:
            if len(times) != T:
                c = f"sigma_fn_called_{len(times) - T:+d}_times"
            else:
                shift = {round((times[i] - i * dt) / dt) for i in range(T)}
                c = f"sigma_fn_times_shifted_by_{shift.pop():+d}_steps" if len(shift) == 1 else "sigma_fn_times_off_grid"
            ctx.violation("LocalVolatilityStock.simulate", c,
                          f"LocalVolatilityStock(dt={dt!r}) horizon {M!r} (T={T}): sigma_fn was called with times {times[:6]}..., "
                          f"expected exactly i*dt = {[i * dt for i in range(min(T, 6))]}... (the grid of time_to_maturity)",
                          observed=times[:12], expected=[i * dt for i in range(min(T, 12))], block=mini)
        # the registered volatility buffer is sigma_fn on the grid i*dt, evaluated at the registered spot
        worst = None
        for i in range(T):
            e = fn(torch.tensor(i * dt, dtype=dtype), spot[:, i])
            err = (vol[:, i] - e).abs().max().item()
            if err > 4 * eps * float(e.abs().max()):
                worst = (i, vol[:, i].tolist(), e.tolist())
                break
        ctx.tick(T)
        if worst and block["sigma_fn"] != "spot" or (worst and ok_times):
            i, got, exp = worst
            ctx.violation("LocalVolatilityStock.volatility", "not_sigma_fn_on_grid",
                          f"LocalVolatilityStock(dt={dt!r}, sigma_fn={block['sigma_fn']}) horizon {M!r}: volatility[:, {i}] = {got} "
                          f"but sigma_fn({i}*dt, spot[:, {i}]) = {exp}: the volatility buffer is not on the grid i*dt on which "
                          f"time_to_maturity = (T-1-i)*dt lives", observed=got, expected=exp, block=mini)
        if d is not None and block["route"] in market.OPTION_KINDS and ok_times:
            ttm_ = d.time_to_maturity()[0].tolist()
            horizon = (T - 1) * dt
            if any(abs(Fraction(times[i]) + Fraction(ttm_[i]) - (T - 1) * Fraction(dt)) > 4 * eps * horizon for i in range(T)):
                ctx.violation("LocalVolatilityStock.simulate", "volatility_grid_vs_time_to_maturity",
                              "time passed to sigma_fn + time_to_maturity is not the maturity at every step",
                              observed=[times, ttm_], expected=horizon, block=mini)


# ----------------------------------------------------------------------------
# histories with the operation "replace the underlier by attribute assignment"
# ----------------------------------------------------------------------------

def _swap_world(block):
    """Three stocks on different step sizes / classes; B carries paths from earlier, unrelated use."""
    dtype = DT[block["dtype"]]
    dtA, dtB, dtC = block["dts"]
    A = market.primary("brownian", dtype=dtype, dt=dtA)
    B = market.primary(block.get("kindB", "heston"), dtype=dtype, dt=dtB)
    B.simulate(n_paths=5, time_horizon=7 * dtB)
    C = market.primary("brownian", dtype=dtype, dt=dtC, sigma=0.3)
    return {"A": A, "B": B, "C": C}


@family
def swap(ctx, block):
    from pfhedge.features import get_feature
    from pfhedge.nn import BlackScholes, Hedger, Naked
    route, M = block["route"], block["M"]
    dtype = DT[block["dtype"]]
    eps = torch.finfo(dtype).eps
    is_option = route in market.OPTION_KINDS
    torch.manual_seed(0)
    for hist in block["histories"]:
        stocks = _swap_world(block)
        d = market.derivative(route, stocks["A"], **_deriv_kwargs(route, M, stocks["A"].dt))
        cur = "A"
        pre = {n: get_feature(n).of(d) for n in (["underlier_spot"] + (["log_moneyness", "time_to_maturity"] if is_option else []))}
        ctx.add("traces_validated_against_impl", 1)
        swapped = False
        for r, op in enumerate(hist):
            mini = dict(block, histories=[hist[:r + 1]])
            ctx.add("transitions", 1)
            if op.startswith("swap"):
                cur = op[4:]
                try:
                    d.underlier = stocks[cur]
                except Exception as e:
                    ctx.violation(type(d).__name__ + ".__setattr__", f"raises:{type(e).__name__}",
                                  f"history {hist[:r + 1]}: derivative.underlier = new stock raised {type(e).__name__}: {str(e)[:160]}",
                                  observed=repr(e)[:200], expected="underlier replaced", block=mini)
                    break
                swapped = True
                continue
            n_paths = int(op[3:])
            X = stocks[cur]
            T = R.expected_points(M, X.dt)[0]
            when = "after_swap" if swapped else "before_swap"
            others = {k: market.snapshot(v) for k, v in stocks.items() if k != cur}
            problems = []
            try:
                d.simulate(n_paths=n_paths)
                ctx.tick(1, nontrivial=1 if swapped else 0)
                if d.ul() is not X or d.underlier is not X or [id(u) for u in d.underliers()] != [id(X)]:
                    problems.append(("registry", "ul() / .underlier / underliers() are not the assigned stock",
                                     [type(d.ul()).__name__, d.ul().dt, type(d.underlier).__name__, d.underlier.dt], [type(X).__name__, X.dt]))
                shapes = {n: tuple(b.shape) for n, b in X.named_buffers()}
                if not shapes or any(sh != (n_paths, T) for sh in shapes.values()):
                    problems.append(("buffers", f"buffers of the current stock {shapes}, expected ({n_paths}, {T})",
                                     {k: list(v) for k, v in shapes.items()}, [n_paths, T]))
                for k_, snap in others.items():
                    if market.snapshot_diff(snap, market.snapshot(stocks[k_])):
                        problems.append(("other_stock_touched", f"simulate() changed the buffers of stock {k_} which is not the "
                                         f"underlier any more", k_, "untouched"))
                if not problems:
                    pay = d.payoff()
                    if tuple(pay.shape) != (n_paths,):
                        problems.append(("payoff", f"payoff shape {tuple(pay.shape)}", list(pay.shape), [n_paths]))
                    if is_option:
                        tt = d.time_to_maturity()
                        ok = tuple(tt.shape) == (n_paths, T)
                        if ok:
                            row = tt[0].tolist()
                            tol = 3 * eps * (T - 1) * X.dt
                            ok = all(abs(Fraction(row[i]) - R.time_to_maturity(T, i, X.dt)) <= tol for i in range(T)) and row[-1] == 0.0
                        if not ok:
                            problems.append(("time_to_maturity", f"time_to_maturity() shape {tuple(tt.shape)}, first "
                                             f"{float(tt.flatten()[0])!r}; expected ({n_paths}, {T}) starting at {(T - 1) * X.dt!r}",
                                             list(tt.shape), [n_paths, T]))
                        mo = d.log_moneyness()
                        if tuple(mo.shape) != (n_paths, T) or not _same(mo, (X.spot / d.strike).log()):
                            problems.append(("moneyness", f"log_moneyness() shape {tuple(mo.shape)} is not the current stock's",
                                             list(mo.shape), [n_paths, T]))
                    feats = dict(pre)
                    feats.update({n + "(fresh)": get_feature(n).of(d) for n in pre})
                    for n, f in feats.items():
                        g = f.get(None)
                        ctx.tick(1)
                        good = tuple(g.shape) == (n_paths, T, 1)
                        if good and n.startswith("underlier_spot"):
                            good = _same(g[:, :, 0], X.spot)
                        if not good:
                            problems.append((f"feature_{n.split('(')[0]}", f"feature {n}: get(None) shape {tuple(g.shape)} / not the "
                                             f"current stock's grid ({n_paths}, {T}, 1)", list(g.shape), [n_paths, T, 1]))
                    models = [("naked", Naked(1), ["zeros"])]
                    if is_option and cur in ("A", "B", "C"):
                        m_ = BlackScholes(d)
                        models.append(("bs", m_, m_.inputs()))
                    for mname, model, inputs in models:
                        hg = Hedger(model, inputs)
                        with torch.no_grad():
                            h = hg.compute_hedge(d)
                            pl_ = hg.compute_pl(d)
                        ctx.tick(2)
                        if tuple(h.shape) != (n_paths, 1, T) or tuple(pl_.shape) != (n_paths,):
                            problems.append((f"hedger_{mname}", f"compute_hedge {tuple(h.shape)}, compute_pl {tuple(pl_.shape)}",
                                             list(h.shape), [n_paths, 1, T]))
                        hl = hg._get_hedge(d, None)
                        if [id(x) for x in hl] != [id(X)]:
                            problems.append(("hedge_instrument", "the default hedging instrument is not the assigned stock",
                                             [type(x).__name__ for x in hl], type(X).__name__))
            except Exception as e:
                problems.append((f"raises:{type(e).__name__}", f"{type(e).__name__}: {str(e)[:200]}", repr(e)[:200], "no exception"))
            ctx.outcome((route, cur, T, n_paths, len(problems)))
            ctx.add("states", 1)
            for what, msg, obs, exp in problems:
                ctx.violation(type(d).__name__ + (".__setattr__" if swapped else ".simulate"),
                              f"{when}_{what}",
                              f"history {hist[:r + 1]} on {type(d).__name__}(maturity={M!r}); stocks A={type(stocks['A']).__name__}"
                              f"(dt={stocks['A'].dt!r}), B={type(stocks['B']).__name__}(dt={stocks['B'].dt!r}, used before), C=BrownianStock(dt={stocks['C'].dt!r}); "
                              f"current underlier {cur} (dt={X.dt!r}, {T} points expected): {msg}",
                              observed=obs, expected=exp, block=mini)
            if problems:
                break
    if len(ctx.samples) < 6 and block["histories"]:
        ctx.sample({"family": "swap", "route": route, "M": M, "dts": block["dts"],
                    "history": block["histories"][len(block["histories"]) // 2]})


# ----------------------------------------------------------------------------
# forward start: the strike is fixed at the grid index of the start time
# ----------------------------------------------------------------------------

def start_index(start, dt):
    """floor(start/dt) in exact arithmetic on the floats; a quotient within 4 ulp of k counts as k."""
    import math
    q = Fraction(start) / Fraction(dt)
    k = math.floor(q + Fraction(1, 2))
    if k >= 1 and abs(q - k) <= 4 * R.EPS * k:
        return k
    return math.floor(q)


@family
def forward_start(ctx, block):
    import pfhedge.instruments as I
    dtype = DT[block["dtype"]]
    eps = torch.finfo(dtype).eps
    n_paths = block["n_paths"]
    torch.manual_seed(0)
    for (M, dt, form, k, start, sform) in block["cases"]:
        T = R.expected_points(M, dt)[0]
        idx = start_index(start, dt)
        mini = dict(block, cases=[[M, dt, form, k, start, sform]])
        p = market.primary(block["primary"], dtype=dtype, dt=dt, **({"sigma": 0.5} if block["primary"] == "brownian" else {}))
        d = I.EuropeanForwardStartOption(p, strike=block["strike"], maturity=M, start=start)
        d.simulate(n_paths=n_paths)
        S = p.spot
        ctx.tick(1, nontrivial=1 if ((form != "k*dt" and sform != "on_grid") or "rounds" in sform) else 0)
        if tuple(S.shape) != (n_paths, T):
            continue    # grid_steps' business
        pay = d.payoff()
        exp = torch.relu(S[:, -1] / S[:, idx] - block["strike"])
        ctx.outcome(("fs", T, idx))
        if tuple(pay.shape) != (n_paths,) or not bool(((pay - exp).abs() <= 4 * eps * (exp.abs() + 1)).all()):
            # which grid index does the observed payoff correspond to?
            used = [j for j in range(T) if tuple(pay.shape) == (n_paths,) and
                    bool(((pay - torch.relu(S[:, -1] / S[:, j] - block["strike"])).abs() <= 4 * eps * (exp.abs() + 1)).all())]
            off = (used[0] - idx) if len(used) == 1 else None
            c = f"strike_fixed_{off:+d}_steps_from_floor_start_over_dt" if off is not None else "payoff_not_on_grid"
            c += "_integer_ratio" if R.expected_points(M, dt)[1] == "integer" else "_noninteger_ratio"
            if "rounds_below" in sform:
                c += "_start_quotient_rounds_below_integer"
            elif "rounds_above" in sform:
                c += "_start_quotient_rounds_above_integer"
            ctx.violation("EuropeanForwardStartOption.payoff", c,
                          f"EuropeanForwardStartOption(dt={dt!r}, maturity={M!r} [{form}, k={k}], start={start!r} [{sform}], "
                          f"strike={block['strike']}): grid of T={T} points, start/dt = {float(Fraction(start) / Fraction(dt))!r} so the "
                          f"strike is fixed at index {idx}; payoff {pay.tolist()} != max(S[-1]/S[{idx}] - K, 0) = {exp.tolist()}"
                          + (f" (it equals the payoff for index {used[0]})" if len(used) == 1 else ""),
                          observed=pay.tolist(), expected=exp.tolist(), block=mini)


def sensitive_start_cases(dts, J):
    """start = j*dt, j/den, decimal literal whose float quotient start/dt is NOT exactly j (rounds below or above);
    maturity two steps later."""
    out = []
    for (label, dt, den, lit) in dts:
        seen = set()
        for j in range(1, J + 1):
            forms = [("j*dt", j * dt)]
            if den is not None:
                forms.append(("j/den", j / den))
            if lit is not None:
                forms.append(("literal", float(Decimal(lit) * j)))
            for form, st in forms:
                if st in seen or st / dt == j:
                    continue
                seen.add(st)
                out.append([(j + 2) * dt, dt, "k*dt", j + 2, st, f"{form}_quotient_rounds_{'below' if st / dt < j else 'above'}_{j}"])
    return out


def forward_start_cases(pairs, jmax):
    out = []
    for (M, dt, form, k) in pairs:
        if form not in ("k*dt", "(k-1/2)*dt"):
            continue
        seen = set()
        for j in range(0, min(k, jmax + 1)):
            for sform, st in (("on_grid", j * dt), ("between_0.3", (j + 0.3) * dt), ("between_0.7", (j + 0.7) * dt)):
                if st >= M or st in seen:
                    continue
                seen.add(st)
                out.append([M, dt, form, k, st, sform])
    return out


# ----------------------------------------------------------------------------
# hedging instruments on different grids
# ----------------------------------------------------------------------------

@family
def hedge_grids(ctx, block):
    """compute_hedge(derivative, hedge=[...]) with hedging instruments whose price series live on different grids must
    raise ValueError (documented: 'The spot prices of the hedges must have the same size'); on equal grids the hedge
    has the T columns of that grid."""
    import pfhedge.instruments as I
    from pfhedge.nn import Hedger, Naked
    dtype = DT[block["dtype"]]
    torch.manual_seed(0)
    for case in block["cases"]:
        dtA, kA, nA = case["A"]
        dtP, kP, nP = case["P"]
        MA, MP = kA * dtA, kP * dtP
        TA, TP = R.expected_points(MA, dtA)[0], R.expected_points(MP, dtP)[0]
        same = (TA == TP and nA == nP)
        mini = dict(block, cases=[case])
        A = market.primary("brownian", dtype=dtype, dt=dtA)
        d = market.derivative(block["route"], A, **_deriv_kwargs(block["route"], MA, dtA))
        d.simulate(n_paths=nA)
        P = market.primary(case.get("kindP", "brownian"), dtype=dtype, dt=dtP)
        P.simulate(n_paths=nP, time_horizon=MP)
        listed = I.EuropeanOption(P, maturity=MP, strike=1.0)
        listed.list(lambda o: torch.relu(o.ul().spot - 1.0) + 0.125 * o.ul().spot)
        lists = {"stock+proxy_stock": [A, P], "proxy_stock+stock": [P, A], "stock+listed_on_proxy": [A, listed],
                 "listed_on_proxy+stock": [listed, A]}
        for lname, hl in lists.items():
            for mname, inputs in (("state_independent", ["zeros"]), ("state_dependent", ["zeros", "prev_hedge"])):
                hedger = Hedger(Naked(2), inputs)
                ctx.tick(1, nontrivial=0 if same else 1)
                try:
                    with torch.no_grad():
                        h = hedger.compute_hedge(d, hedge=hl)
                    outcome = ("returned", tuple(h.shape))
                except ValueError as e:
                    outcome = ("ValueError", str(e)[:80])
                except Exception as e:
                    outcome = (type(e).__name__, str(e)[:120])
                ctx.outcome((lname, mname, same, outcome[0]))
                grids = f"derivative/stock grid ({nA}, {TA}) [dt={dtA!r}], second instrument's price series ({nP}, {TP}) [dt={dtP!r}]"
                if same:
                    if outcome != ("returned", (nA, 2, TA)):
                        ctx.violation("Hedger.compute_hedge", f"equal_grids_{lname}_{outcome[0]}",
                                      f"hedge list {lname} ({mname} model), {grids}: {outcome}; expected a hedge of shape "
                                      f"({nA}, 2, {TA})", observed=list(outcome), expected=[nA, 2, TA], block=mini)
                elif outcome[0] != "ValueError":
                    ctx.violation("Hedger.compute_hedge", f"different_grids_{lname}_{outcome[0]}",
                                  f"hedge list {lname} ({mname} model), {grids}: compute_hedge {outcome} instead of raising "
                                  f"ValueError('The spot prices of the hedges must have the same size')",
                                  observed=list(outcome), expected="ValueError", block=mini)


# ----------------------------------------------------------------------------
# tensor-valued dt, repeated simulate calls on one instrument
# ----------------------------------------------------------------------------

@family
def tensor_dt(ctx, block):
    """The instrument's dt is a 0-dim tensor of the series dtype; simulate() is called repeatedly on ONE instrument:
    at every call T is the point count for the ORIGINAL dt value, and stock.dt is bitwise unchanged."""
    kind = block["primary"]
    dtype = DT[block["dtype"]]
    eps = torch.finfo(dtype).eps
    torch.manual_seed(0)
    for dt_py in block["dts"]:
        dt_t = torch.tensor(dt_py, dtype=dtype)
        dtval = dt_t.item()                        # the value the instrument really holds
        orig = dt_t.clone()
        for hist in block["histories"]:
            dt_t = orig.clone()
            try:
                p = market.primary(kind, dtype=dtype, dt=dt_t)
                d = market.derivative("european", p, maturity=hist[0] * dtval) if block["route"] == "european" else None
            except Exception:
                ctx.add("tensor_dt_not_accepted", 1)
                continue
            ctx.add("traces_validated_against_impl", 1)
            for r, mult in enumerate(hist):
                M = mult * dtval
                T = R.expected_points(M, dtval)[0]
                mini = dict(block, dts=[dt_py], histories=[hist[:r + 1]])
                ctx.add("transitions", 1)
                ctx.tick(1, nontrivial=1 if r > 0 else 0)
                try:
                    if d is None:
                        p.simulate(n_paths=2, time_horizon=M)
                    else:
                        d.maturity = M
                        d.simulate(n_paths=2)
                except Exception as e:
                    if r == 0:
                        ctx.add("tensor_dt_not_accepted", 1)
                        break
                    ctx.violation(type(p).__name__ + ".simulate", f"tensor_dt_call_{'first' if r == 0 else 'repeated'}_raises:{type(e).__name__}",
                                  f"{type(p).__name__}(dt=tensor({dt_py!r}, {block['dtype']})) simulate call {r + 1} (horizon {mult}*dt): "
                                  f"{type(e).__name__}: {str(e)[:160]}", observed=repr(e)[:200], expected=T, block=mini)
                    break
                shapes = {n: tuple(b.shape) for n, b in p.named_buffers()}
                when = "first_call" if r == 0 else "repeated_call"
                cur = p.dt
                same_dt = isinstance(cur, torch.Tensor) and cur.dtype == orig.dtype and torch.equal(cur, orig)
                ctx.outcome((kind, block["dtype"], r, list(shapes.values())[0][1] - T, same_dt))
                if not same_dt:
                    ctx.violation(type(p).__name__ + ".simulate", f"tensor_dt_{when}_dt_attribute_changed",
                                  f"{type(p).__name__}(dt=tensor({dtval!r}, {block['dtype']})): after simulate call {r + 1} the "
                                  f"instrument's dt is {cur!r}", observed=float(cur) if isinstance(cur, torch.Tensor) else repr(cur),
                                  expected=dtval, block=mini)
                if any(sh != (2, T) for sh in shapes.values()):
                    ctx.violation(type(p).__name__ + ".simulate", f"tensor_dt_{when}_points",
                                  f"{type(p).__name__}(dt=tensor({dtval!r}, {block['dtype']})) simulate call {r + 1} with horizon "
                                  f"{mult}*dt: buffers {shapes}, expected (2, {T}) for the original dt",
                                  observed={k_: list(v) for k_, v in shapes.items()}, expected=[2, T], block=mini)
                    break
                if d is not None:
                    t0 = float(d.time_to_maturity(0)[0, 0])
                    e = (T - 1) * Fraction(dtval)
                    if abs(Fraction(t0) - e) > 3 * eps * e or float(d.time_to_maturity(-1)[0, 0]) != 0.0:
                        ctx.violation("EuropeanOption.time_to_maturity", f"tensor_dt_{when}_value",
                                      f"dt=tensor({dtval!r}), call {r + 1}: time_to_maturity(0) = {t0!r}, expected {float(e)!r}",
                                      observed=t0, expected=float(e), block=mini)
                        break
            ctx.add("states", len(hist))


# ----------------------------------------------------------------------------
# one hedger, several derivatives
# ----------------------------------------------------------------------------

def _reuse_world(block):
    import pfhedge.instruments as I
    dtype = DT[block["dtype"]]
    cfg = block["config"]
    dtA, kA = block["A"]
    A_ul = market.primary("brownian", dtype=dtype, dt=dtA)
    A = I.EuropeanOption(A_ul, maturity=kA * dtA, strike=1.0)
    if cfg == "other_maturity":
        B = I.EuropeanOption(market.primary("brownian", dtype=dtype, dt=dtA), maturity=(kA + 3) * dtA, strike=1.0)
    elif cfg == "other_strike_same_underlier":
        B = I.EuropeanOption(A_ul, maturity=kA * dtA, strike=1.25)
    elif cfg == "other_underlier_dt":
        B = I.EuropeanOption(market.primary("heston", dtype=dtype, dt=dtA / 2), maturity=kA * dtA, strike=1.0)
    elif cfg == "other_type_and_paths":
        B = I.LookbackOption(market.primary("brownian", dtype=dtype, dt=dtA, sigma=0.4), maturity=(kA - 1) * dtA, strike=0.875)
    else:
        raise KeyError(cfg)
    A.simulate(n_paths=2)
    if cfg != "other_strike_same_underlier":
        B.simulate(n_paths=3 if cfg == "other_type_and_paths" else 2)
    return A, B


@family
def hedger_reuse(ctx, block):
    """One Hedger object used with several derivatives: get_input(X, i) / compute_hedge(X) always follow X's grid."""
    from pfhedge.features import FeatureList
    from pfhedge.nn import Hedger, Naked
    dtype = DT[block["dtype"]]
    eps = torch.finfo(dtype).eps
    inputs = block["inputs"]
    tcol = [j for j, n in enumerate(inputs) if n in TIME_FEATURES]
    torch.manual_seed(0)
    for hist in block["histories"]:
        A, B = _reuse_world(block)
        ders = {"A": A, "B": B}
        hedger = Hedger(Naked(1), inputs)
        ctx.add("traces_validated_against_impl", 1)
        used = set()
        for r, op in enumerate(hist):
            kind_, who = op.split("_")
            X = ders[who]
            N, T = X.ul().spot.shape
            dt = X.ul().dt
            mini = dict(block, histories=[hist[:r + 1]])
            after = "after_other_derivative" if (used - {who}) else "fresh_hedger_or_same_derivative"
            ctx.add("transitions", 1)
            try:
                if kind_ == "hedge":
                    with torch.no_grad():
                        h = hedger.compute_hedge(X)
                    ctx.tick(1, nontrivial=1 if used - {who} else 0)
                    if tuple(h.shape) != (N, 1, T):
                        ctx.violation("Hedger.compute_hedge", f"{after}_shape", f"history {hist[:r + 1]} ({block['config']}): "
                                      f"compute_hedge({who}) shape {tuple(h.shape)}, {who}'s grid is ({N}, {T})",
                                      observed=list(h.shape), expected=[N, 1, T], block=mini)
                        break
                else:
                    fresh = FeatureList(inputs).of(X)
                    bad = None
                    for i in [None] + list(range(T)):
                        g = hedger.get_input(X, i)
                        e = fresh.get(i)
                        ctx.tick(1, nontrivial=1 if used - {who} else 0)
                        if tuple(g.shape) != tuple(e.shape) or not _same(g, e):
                            bad = (i, list(g.shape), list(e.shape), g.flatten()[:6].tolist(), e.flatten()[:6].tolist())
                            break
                        for j in tcol:      # the time column is the oracle's, not merely "what a fresh feature says"
                            col = g[0, :, j].tolist()
                            want = [R.time_to_maturity(T, k_, dt) for k_ in (range(T) if i is None else [i])]
                            if any(abs(Fraction(c) - w) > 3 * eps * (T - 1) * dt for c, w in zip(col, want)):
                                bad = (i, list(g.shape), list(e.shape), col[:6], [float(w) for w in want[:6]])
                                break
                        if bad:
                            break
                    if bad:
                        i, gs, es, gv, ev = bad
                        ctx.violation("Hedger.get_input", f"{after}_not_the_derivatives_grid",
                                      f"history {hist[:r + 1]} ({block['config']}, inputs {inputs}): get_input({who}, {i}) has shape {gs} "
                                      f"values {gv}; the features of {who} (grid ({N}, {T}), dt={dt!r}) are shape {es} values {ev}",
                                      observed=[gs, gv], expected=[es, ev], block=mini)
                        break
            except Exception as e:
                ctx.violation("Hedger.get_input" if kind_ == "input" else "Hedger.compute_hedge", f"{after}_raises:{type(e).__name__}",
                              f"history {hist[:r + 1]} ({block['config']}, inputs {inputs}): {type(e).__name__}: {str(e)[:160]}",
                              observed=repr(e)[:200], expected="values on the derivative's grid", block=mini)
                break
            used.add(who)
            ctx.outcome((block["config"], op, T, N))
        ctx.add("states", len(hist))


# ----------------------------------------------------------------------------
# a listed derivative follows the grid of its underlier, whoever re-simulated it
# ----------------------------------------------------------------------------

def _bs_pricer(d):
    from pfhedge.nn import BlackScholes
    return BlackScholes(d).price(d.log_moneyness(), d.time_to_maturity(), d.ul().volatility)


@family
def listed_shared(ctx, block):
    import pfhedge.instruments as I
    from pfhedge.features import get_feature
    from pfhedge.nn import Hedger, Naked
    dtype = DT[block["dtype"]]
    dt = block["dt"]
    torch.manual_seed(0)
    for hist in block["histories"]:
        S = market.primary("brownian", dtype=dtype, dt=dt)
        listed = I.EuropeanOption(S, maturity=5 * dt, strike=1.0)
        listed.list(_bs_pricer, cost=0.0)
        exotic = I.LookbackOption(S, maturity=8 * dt, strike=1.0)
        f_spot = get_feature("spot").of(listed)                  # bound once
        ctx.add("traces_validated_against_impl", 1)
        by_other = False
        for r, op in enumerate(hist):
            mini = dict(block, histories=[hist[:r + 1]])
            ctx.add("transitions", 1)
            if op == "sim_listed":
                listed.simulate(n_paths=2)
                N, T = 2, R.expected_points(5 * dt, dt)[0]
            elif op == "sim_exotic":
                exotic.simulate(n_paths=2)
                N, T = 2, R.expected_points(8 * dt, dt)[0]
                by_other = True
            elif op == "sim_stock":
                S.simulate(n_paths=3, time_horizon=3 * dt)
                N, T = 3, R.expected_points(3 * dt, dt)[0]
                by_other = True
            elif op == "set_buffer":
                S.register_buffer("spot", torch.full((2, 4), 1.0, dtype=dtype) + 0.125 * torch.arange(4, dtype=dtype))
                N, T = 2, 4
                by_other = True
            else:
                raise KeyError(op)
            when = "underlier_resimulated_elsewhere" if by_other else "own_simulate"
            ctx.tick(1, nontrivial=1 if by_other else 0)
            problems = []
            try:
                if tuple(S.spot.shape) != (N, T):
                    problems.append(("underlier_points", f"underlier grid {tuple(S.spot.shape)}, expected ({N}, {T})", list(S.spot.shape), [N, T]))
                else:
                    q = listed.spot
                    want = _bs_pricer(listed)
                    if tuple(q.shape) != (N, T):
                        problems.append(("listed_spot_shape", f"listed.spot has grid {tuple(q.shape)}, its underlier ({N}, {T})",
                                         list(q.shape), [N, T]))
                    elif not _same(q, want):
                        problems.append(("listed_spot_stale_values", "listed.spot is not the pricer on the current paths",
                                         q[0].tolist(), want[0].tolist()))
                    g1 = f_spot.get(None)
                    g2 = get_feature("underlier_spot").of(listed).get(None)
                    ctx.tick(2)
                    if tuple(g1.shape) != (N, T, 1) or tuple(g2.shape) != (N, T, 1):
                        problems.append(("features_disagree", f"feature spot {tuple(g1.shape)} vs underlier_spot {tuple(g2.shape)}",
                                         [list(g1.shape), list(g2.shape)], [N, T, 1]))
                    for mname, inputs in (("state_independent", ["zeros"]), ("state_dependent", ["zeros", "prev_hedge"])):
                        hg = Hedger(Naked(2), inputs)
                        with torch.no_grad():
                            h = hg.compute_hedge(exotic, hedge=[S, listed])
                            pl_ = hg.compute_pl(exotic, hedge=[S, listed])
                        ctx.tick(2)
                        if tuple(h.shape) != (N, 2, T) or tuple(pl_.shape) != (N,):
                            problems.append((f"hedge_shape_{mname}", f"compute_hedge {tuple(h.shape)}", list(h.shape), [N, 2, T]))
            except Exception as e:
                problems.append((f"raises:{type(e).__name__}", f"{type(e).__name__}: {str(e)[:200]}", repr(e)[:200], "no exception"))
            ctx.outcome((op, r, T, N, len(problems)))
            ctx.add("states", 1)
            for what, msg, obs, exp in problems:
                ctx.violation("EuropeanOption.spot", f"{when}_{what}",
                              f"history {hist[:r + 1]} (stock dt={dt!r} shared by a listed EuropeanOption(maturity=5dt) with a BS pricer "
                              f"and a LookbackOption(maturity=8dt); sim_stock = stock.simulate(3dt, 3 paths)); current underlier grid "
                              f"({N}, {T}): {msg}", observed=obs, expected=exp, block=mini)
            if problems:
                break


# ----------------------------------------------------------------------------
# payoffs and the running-extremum features live on the same T points
# ----------------------------------------------------------------------------

@family
def payoff_grid(ctx, block):
    import pfhedge.instruments as I
    from pfhedge.features import get_feature
    from pfhedge.features.features import Barrier
    from mc.core.explore import all_paths
    dtype = DT[block["dtype"]]
    T, A, K = block["T"], block["A"], block["strike"]
    spot = all_paths(A, T, dtype=dtype)
    if block.get("rows") is not None:
        spot = spot[block["rows"]]
    base = block.get("rows")
    N = spot.size(0)
    S = market.primary("brownian", dtype=dtype, dt=market.DT)
    market.set_buffers(S, spot=spot)
    only_first = (spot[:, 0] >= K) & (spot[:, 1:] < K).all(dim=1)      # barrier touched at inception only
    for call in (True, False):
        ab = I.AmericanBinaryOption(S, call=call, strike=K, maturity=(T - 1) * market.DT)
        lb = I.LookbackOption(S, call=call, strike=K, maturity=(T - 1) * market.DT)
        pay = ab.payoff()
        bar = Barrier(K, up=call).of(ab).get(T - 1)[:, 0, 0]
        bar_all = Barrier(K, up=call).of(ab).get(None)[:, -1, 0]
        checks = [("AmericanBinaryOption.payoff", "vs_barrier_feature_last_step", pay, bar),
                  ("AmericanBinaryOption.payoff", "vs_barrier_feature_grid_last_column", pay, bar_all)]
        if call:
            mm = get_feature("max_moneyness").of(ab).get(T - 1)[:, 0, 0]
            checks.append(("AmericanBinaryOption.payoff", "vs_max_moneyness_last_step", pay, (mm >= 1).to(dtype)))
            mml = get_feature("max_moneyness").of(lb).get(T - 1)[:, 0, 0]
            checks.append(("LookbackOption.payoff", "vs_max_moneyness_last_step", lb.payoff(), torch.relu(mml * K - K)))
            checks.append(("LookbackOption.payoff", "vs_max_over_all_points", lb.payoff(), torch.relu(spot.max(dim=1).values - K)))
        else:
            checks.append(("LookbackOption.payoff", "vs_min_over_all_points", lb.payoff(), torch.relu(K - spot.min(dim=1).values)))
        for site, what, got, want in checks:
            ctx.tick(N, nontrivial=int(only_first.sum()) if call else int(((spot[:, 0] <= K) & (spot[:, 1:] > K).all(dim=1)).sum()))
            bad = (got != want).nonzero().flatten().tolist() if got.shape == want.shape else [0]
            for i in bad:
                path = spot[i].tolist()
                first_only = (path[0] >= K and all(x < K for x in path[1:])) if call else (path[0] <= K and all(x > K for x in path[1:]))
                ctx.violation(site, f"{what}_{'call' if call else 'put'}" + ("_extremum_at_step_0_only" if first_only else ""),
                              f"{site.split('.')[0]}({'call' if call else 'put'}, strike={K}) on the path {path} (T={T} points): payoff "
                              f"{float(got[i]) if got.dim() else got!r} but the library's running-extremum over the same T points gives "
                              f"{float(want[i])!r}", observed=float(got[i]), expected=float(want[i]),
                              block=dict(block, rows=[base[i] if base is not None else i]))
        ctx.outcome((T, K, call, float(pay.sum())))


# ----------------------------------------------------------------------------
# payoffs are read at the LAST registered grid point
# ----------------------------------------------------------------------------

def _terminal_payoff_ref(kind, call, K, S, dt):
    """Reference payoff from the definition, on the registered buffer S (N, T)."""
    ST = S[:, -1]
    if kind == "european":
        return torch.relu(ST - K) if call else torch.relu(K - ST)
    if kind == "european_binary":
        return (ST >= K).to(S.dtype) if call else (ST <= K).to(S.dtype)
    if kind == "variance_swap":
        lr = (S[:, 1:] / S[:, :-1]).log()
        return (lr * lr).mean(dim=1) / dt - K
    if kind == "forward_start":          # start = 0
        return torch.relu(ST / S[:, 0] - K)
    raise KeyError(kind)


@family
def payoff_last_point(ctx, block):
    import pfhedge.instruments as I
    dtype = DT[block["dtype"]]
    eps = torch.finfo(dtype).eps
    kind, call, K = block["route"], block.get("call", True), block["strike"]
    torch.manual_seed(0)
    for (M, dt, form, k) in block["cases"]:
        T = R.expected_points(M, dt)[0]
        mini = dict(block, cases=[[M, dt, form, k]])
        p = market.primary("brownian", dtype=dtype, dt=dt, sigma=0.5)
        if kind == "european":
            d = I.EuropeanOption(p, call=call, strike=K, maturity=M)
        elif kind == "european_binary":
            d = I.EuropeanBinaryOption(p, call=call, strike=K, maturity=M)
        elif kind == "variance_swap":
            d = I.VarianceSwap(p, strike=K, maturity=M)
        else:
            d = I.EuropeanForwardStartOption(p, strike=K, maturity=M, start=0.0)
        d.simulate(n_paths=3)
        S = p.spot.clone()
        if tuple(S.shape) != (3, T):
            continue    # grid_steps' business
        rounding = "integer" if R.expected_points(M, dt)[1] == "integer" else "noninteger"
        below = rounding == "integer" and M / dt < k
        for stage in ("simulated", "last_point_moved"):
            if stage == "last_point_moved":
                S2 = S.clone()
                S2[:, -1] = S[:, -1] * (1.5 if call else 0.5) + (0.25 if call else 0.0)     # across the strike
                p.register_buffer("spot", S2)
            cur = p.spot
            pay = d.payoff()
            ref = _terminal_payoff_ref(kind, call, K, cur, dt)
            ctx.tick(1, nontrivial=1 if (rounding == "noninteger" or below) else 0)
            if kind == "variance_swap":
                # The contract (mean squared LOG-return) is defined on positive finite prices only.  A float32 path
                # simulated over several hundred years (dt = 0.3, k ~ 2000) underflows to 0: reference and payoff
                # are both NaN there and say nothing about the grid - such paths are counted, not compared.
                good = torch.isfinite(ref) & (cur > 0).all(-1) & torch.isfinite(cur).all(-1)
                if not bool(good.all()):
                    ctx.add("paths_with_undefined_log_return_contract", int((~good).sum()))
                    if tuple(pay.shape) == (3,):
                        if not bool(good.any()):
                            continue
                        cur, pay, ref = cur[good], pay[good], ref[good]
                # log-return r_t = log S_{t+1} - log S_t (or log of the ratio): |error| <= ~2*eps*max|log S| + eps*|r|;
                # squared, averaged and divided by dt: 2*max|r|*that/dt
                lr_ = (cur[:, 1:] / cur[:, :-1]).log().abs().max()
                tol = 16 * eps * (cur.log().abs().max() + lr_) * lr_ / dt + 4 * eps * (ref.abs() + 1)
            elif kind == "forward_start":
                tol = 4 * eps * (ref.abs() + 1)
            else:
                tol = 2 * eps * (ref.abs() + K)
            if tuple(pay.shape) != tuple(ref.shape) or not bool(((pay - ref).abs() <= tol).all()):
                earlier = [j for j in range(T - 1) if kind in ("european", "european_binary") and tuple(pay.shape) == (3,) and
                           bool(((pay - _terminal_payoff_ref(kind, call, K, cur[:, :j + 1], dt)).abs() <= tol).all())]
                c = f"read_at_step_T{earlier[-1] - (T - 1):+d}" if earlier else "not_the_terminal_payoff"
                c += "_quotient_rounds_below_integer" if below else f"_{rounding}_ratio"
                ctx.violation(type(d).__name__ + ".payoff", c,
                              f"{type(d).__name__}({'call' if call else 'put'}, K={K}, maturity={M!r} [{form}, k={k}], dt={dt!r}), grid of "
                              f"T={T} points ({stage}): payoff {pay.tolist()} but the last registered price {cur[:, -1].tolist()} gives "
                              f"{ref.tolist()} (M/dt float quotient {M / dt!r})", observed=pay.tolist(), expected=ref.tolist(), block=mini)
                break
        ctx.outcome((kind, T, rounding))


# ----------------------------------------------------------------------------
# several hedging instruments, state-independent features: hedge[:, h, t] = model(features at t)[h]
# ----------------------------------------------------------------------------

@family
def multi_hedge(ctx, block):
    import pfhedge.instruments as I
    from pfhedge.nn import Hedger
    dtype = DT[block["dtype"]]
    eps = torch.finfo(dtype).eps
    H, inputs = block["H"], block["inputs"]
    torch.manual_seed(0)
    lin = torch.nn.Linear(len(inputs), H).to(dtype)
    with torch.no_grad():      # dyadic, all rows different
        lin.weight.copy_(torch.tensor([[(1 + h) * (1 if j == 0 else -0.5) for j in range(len(inputs))] for h in range(H)], dtype=dtype))
        lin.bias.copy_(torch.tensor([0.25 * h for h in range(H)], dtype=dtype))
    for (M, dt, form, k) in block["cases"]:
        T = R.expected_points(M, dt)[0]
        if T < 3:
            continue
        mini = dict(block, cases=[[M, dt, form, k]])
        A = market.primary("brownian", dtype=dtype, dt=dt)
        d = I.EuropeanOption(A, maturity=M, strike=1.0)
        d.simulate(n_paths=2)
        others = []
        for h in range(1, H):
            if block["hedge"] == "stocks" or h > 1:
                q = market.primary("brownian", dtype=dtype, dt=dt, sigma=0.1 * (h + 2))
                q.simulate(n_paths=2, time_horizon=M)
                others.append(q)
            else:
                lo = I.EuropeanOption(A, maturity=M, strike=1.125)
                lo.list(lambda o: torch.relu(o.ul().spot - 1.125) + 0.25 * o.ul().spot)
                others.append(lo)
        hl = [A] + others
        hedger = Hedger(lin, inputs)
        with torch.no_grad():
            h_ = hedger.compute_hedge(d, hedge=hl)
            per_step = torch.cat([lin(hedger.get_input(d, t)) for t in range(T)], dim=1)     # (N, T, H)
        ctx.tick(1, nontrivial=1)
        if tuple(h_.shape) != (2, H, T):
            ctx.violation("Hedger.compute_hedge", f"shape_H{H}", f"hedge shape {tuple(h_.shape)} for H={H}, T={T}",
                          observed=list(h_.shape), expected=[2, H, T], block=mini)
            continue
        want = per_step.transpose(1, 2).clone()          # (N, H, T): position in instrument h at step t
        want[:, :, -1] = want[:, :, -2]                   # no trade at maturity
        err = (h_ - want).abs()
        tol = 8 * eps * (want.abs() + 1)
        ctx.outcome((H, tuple(inputs), T))
        if bool((err > tol).any()):
            n_, hh, tt = [int(x) for x in (err > tol).nonzero()[0]]
            src = [(hh2, t2) for hh2 in range(H) for t2 in range(T) if abs(float(h_[n_, hh, tt] - per_step[n_, t2, hh2])) <= float(tol[n_, hh, tt])]
            ctx.violation("Hedger.compute_hedge", f"H{H}_entry_not_model_of_features_at_that_step",
                          f"H={H} hedging instruments ({block['hedge']}), state-independent inputs {inputs}, T={T} (dt={dt!r}): "
                          f"hedge[{n_}, {hh}, :] = {h_[n_, hh].tolist()} but model(features at step t)[{hh}] = {want[n_, hh].tolist()}"
                          + (f"; entry ({hh}, {tt}) equals the model output (instrument, step) = {src[0]}" if src else ""),
                          observed=h_[n_, hh].tolist(), expected=want[n_, hh].tolist(), block=mini)


# ----------------------------------------------------------------------------

def _chunks(cases, n):
    return [cases[i:i + n] for i in range(0, len(cases), n)]


def run(ctx):
    ctx.rule("grid_steps: every (M, dt) with dt in the dt alphabet and M written as k*dt, k/den, decimal literal and "
             "(k-1/2)*dt for k = 1..K (equal floats kept once).  Own simulate(): n_paths=2 on k <= Kslow plus every "
             "rounding-sensitive pair for the vectorised primaries (thorough: all pairs; k <= Kslow for the four primaries that "
             "loop over the steps in python), all pairs x n_paths in {1,2} "
             "for BrownianStock, k <= Ksmall x n_paths=1 for the others (all pairs in thorough for vectorised ones); "
             "through each of the 6 derivative classes and a two-underlier derivative: all pairs on BrownianStock, k <= Ksmall on the other 7 primaries "
             "(all pairs in thorough for the vectorised ones); float32 BrownianStock on all pairs.  Non-trivial = pairs whose "
             "exact quotient is an integer up to 4 ulp but whose float quotient M/dt is not that integer.  "
             "ttm: time_to_maturity() on every grid and time_to_maturity(i) for every i in [-T, T) (quick: T <= 25 for "
             "EuropeanOption, T <= 13 and k <= Ksmall for the other option classes; thorough: all), float64 and float32.  "
             "grid_use: payoff / every applicable feature get(None), get(i) / hedger shapes on the k <= 5 (quick) / Ksmall..60 grids.  "
             "cross_dt: every ordered pair of distinct dt symbols x M in {k*dt1, k*dt2, (k-1/2)*dt1 : k <= Kc} x second "
             "underlier class in {Brownian, Heston, Merton}; non-trivial = the two underliers need different numbers of "
             "points.  resimulate: every sequence of length 3 (thorough 4) over the (M/dt, n_paths) symbols (all |S|^depth "
             "for EuropeanOption/BrownianStock, all permutations for the other derivative classes) x dt x dtype, features "
             "bound once; states = simulations, transitions = re-simulations, traces = histories; non-trivial = rounds "
             "after the first.  long_grid: BrownianStock, every dt symbol x every k in (K, Klong] whose float quotient M/dt is "
             "not exactly k (thorough: also every k <= 3000) x forms k*dt, k/den, literal.  local_vol: 3 sigma_fn x routes x "
             "dtype x the k <= 5 (12) pairs; every call time of sigma_fn recorded.  swap: every operation sequence of length "
             "<= 3 (4) over {simulate(2), simulate(3), underlier = A|B|C} that ends with a simulate and contains a swap, x 6 "
             "derivative classes x 2 stock triples; non-trivial = simulations after a swap.  grid_use also: get(i) for every i in "
             "[-T, T) (running-maximum features: without i = -1) has shape (N,1,1) and equals column i of get(None); "
             "Hedger.get_input(d, -1|0|T-1).  forward_start: (k*dt, (k-1/2)*dt maturities, k <= Ksmall) x starts j*dt, (j+0.3)*dt, "
             "(j+0.7)*dt; non-trivial = non-integer M/dt with a start between grid times.  hedge_grids: dt x k x proxy grids "
             "(same dt other horizon, other n_paths, other dt same horizon / same number of steps) x 4 hedge lists x "
             "{state-independent, state-dependent} model; non-trivial = different grids.  grid_steps also: all 8 primaries in the "
             "default dtype and float32 with python-float dts (incl. 0.3, 0.1/3) on k <= 4 (24).  tensor_dt: 8 primaries x "
             "{float32, float64} x dt symbols as 0-dim tensors x simulate histories of length 3-4; non-trivial = repeated "
             "calls.  hedger_reuse: every operation sequence of length <= 3 (4) ending with a get_input or hedge_B x 4 "
             "(A, B) configurations x 2 input lists; non-trivial = operations after the hedger saw the other derivative.  listed_shared: every operation sequence of "
             "length <= 3 (4) over 4 operations x dt; non-trivial = states after the underlier was re-simulated by someone "
             "else.  payoff_grid: all 3^T paths (T = 2..4 (6)) x 3 strikes x call/put x dtype; non-trivial = paths whose "
             "extremum touches the barrier at step 0 only.  payoff_last_point: all (M, dt) pairs plus the k <= 500 (3000) pairs whose "
             "float quotient rounds below k x 6 payoff variants (full set for the European call, reduced for the others in "
             "quick) x {as simulated, last point moved}; non-trivial = non-integer ratio or quotient below the integer.  "
             "multi_hedge: (M, dt) with 2 <= k <= 5 (12) x H in {2, 3} x 2 input lists x 2 hedge compositions")
    ctx.assume("expected number of points computed with exact Fractions on the float arguments; 'integer' = within "
               "4*2^-52*k of k; no enumerated pair lies between that and 1e-6 of an integer (asserted)")
    ctx.assume("the number of steps does not depend on the random draws (seed fixed, values unused)")
    K = ctx.pick(60, 400)
    Ksmall = ctx.pick(8, 40)
    Kslow = ctx.pick(24, 250)     # primaries whose simulate() loops over the steps in python (cost ~ k^2)
    dts = list(DTS) + [ctx.extra_symbol("dt", EXTRA_DTS)]
    ctx.alphabet("dt", [d[0] for d in dts])
    ctx.alphabet("forms", ["k*dt", "k/den", "decimal literal", "(k-1/2)*dt"])
    ctx.info["K"] = K
    ctx.info["Ksmall"] = Ksmall
    ctx.info["Kslow"] = Kslow
    per_dt = {d[0]: pairs_for(d, K) for d in dts}
    all_pairs = [c for d in dts for c in per_dt[d[0]]]
    small_pairs = [c for c in all_pairs if c[3] <= Ksmall]
    slow_pairs = [c for c in all_pairs if c[3] <= Kslow]
    ctx.add("pairs", len(all_pairs))

    blocks = []
    # own simulate, all pairs, all primaries
    for kind in PRIMARIES:
        for n_paths in (2, 1):
            if kind == "brownian" or (ctx.thorough and kind not in SLOW):
                cases = all_pairs
            elif n_paths == 1:
                cases = small_pairs
            elif kind in SLOW:
                cases = slow_pairs
            else:   # vectorised primaries, quick: k <= Kslow plus every rounding-sensitive pair up to K
                cases = [c for c in all_pairs if c[3] <= Kslow or
                         (R.expected_points(c[0], c[1])[1] == "integer" and c[0] / c[1] != c[3])]
            for ch in _chunks(cases, 400):
                blocks.append(("grid_steps", {"primary": kind, "route": "own", "n_paths": n_paths, "cases": ch}))
    # through every derivative class
    for route in DERIVS:
        for kind in PRIMARIES:
            full = (kind == "brownian") or (ctx.thorough and kind not in SLOW)
            cases = all_pairs if full else small_pairs
            if ctx.quick and kind == "brownian" and route not in ("european", "variance_swap"):
                cases = slow_pairs      # the six classes share BaseDerivative.simulate; two of them see every pair
            if ctx.quick and kind != "brownian" and route not in ("european", "variance_swap"):
                continue    # quick: the other primaries go through two of the six classes (shared BaseDerivative.simulate)
            for n_paths in ((2, 1) if kind == "brownian" else (2,)):
                cs = small_pairs if (ctx.quick and n_paths == 1) else cases
                for ch in _chunks(cs, 400):
                    blocks.append(("grid_steps", {"primary": kind, "route": route, "n_paths": n_paths, "cases": ch}))
    # a derivative with two underliers: every underlier gets the grid
    for kind in PRIMARIES:
        cases = (slow_pairs if ctx.quick else all_pairs) if kind == "brownian" else small_pairs
        for ch in _chunks(cases, 400):
            blocks.append(("grid_steps", {"primary": kind, "route": "two_underliers", "n_paths": 2, "cases": ch}))
    # boundary: maturity / time horizon exactly 0 -> ceil(0) + 1 = 1 time point (RoughBergomiStock raises at one time
    # point on the unchanged tree - finding #9, C11's - and is exempt)
    zero_cases = [[0.0, d_[1], "zero", 0] for d_ in dts]
    for kind in PRIMARIES:
        if kind == "rough_bergomi":
            continue
        for route in ["own"] + DERIVS + ["two_underliers"]:
            for n_paths, dtype in ((2, "float64"), (1, "default")):
                if ctx.quick and dtype == "default" and route not in ("own", "european"):
                    continue
                blocks.append(("grid_steps", {"primary": kind, "route": route, "n_paths": n_paths, "dtype": dtype,
                                              "cases": zero_cases}))
    for route in market.OPTION_KINDS:
        for dtype in ("float64", "float32"):
            blocks.append(("ttm", {"primary": "brownian", "route": route, "n_paths": 2, "dtype": dtype, "cases": zero_cases}))
    # float32 instruments: the step count must not depend on the dtype
    for ch in _chunks(all_pairs, 400):
        blocks.append(("grid_steps", {"primary": "brownian", "route": "own", "n_paths": 1, "dtype": "float32", "cases": ch}))
    # time to maturity
    for route in market.OPTION_KINDS:
        for dtype in ("float64", "float32"):
            cases = all_pairs if route == "european" else small_pairs
            if ctx.thorough and route != "european":
                cases = [c for c in all_pairs if c[3] <= 60]
            for ch in _chunks(cases, 200):
                blocks.append(("ttm", {"primary": "brownian", "route": route, "n_paths": 2, "dtype": dtype,
                                       "all_indices_up_to": ctx.pick(25 if route == "european" else 13, 10 ** 9),
                                       "cases": ch}))
    blocks.append(("ttm", {"primary": "heston", "route": "european", "n_paths": 1, "dtype": "float64",
                           "cases": small_pairs}))
    # same grid everywhere
    for route in DERIVS:
        for kind in (["brownian", "heston"] if ctx.quick else PRIMARIES):
            if ctx.quick and kind == "heston" and route not in ("european", "variance_swap"):
                continue
            cases = small_pairs if (ctx.quick or kind in SLOW) else [c for c in all_pairs if c[3] <= 60]
            if ctx.quick:
                cases = [c for c in small_pairs if c[3] <= 5]
            for ch in _chunks(cases, 200):
                blocks.append(("grid_use", {"primary": kind, "route": route, "n_paths": 2, "light": ctx.quick, "cases": ch}))

    # two underliers on different step sizes (both orders of every pair of dt symbols)
    Kc = ctx.pick(4, 24)
    cpairs, skipped = cross_pairs(dts, Kc)
    ctx.add("cross_dt_pairs", len(cpairs))
    ctx.add("cross_dt_pairs_in_undefined_zone_skipped", skipped)
    for second in ("brownian", "heston", "merton"):
        cap = 10 ** 9 if second != "heston" else ctx.pick(40, 120)   # Heston loops over the steps
        for ch in _chunks(cpairs, 400):
            blocks.append(("cross_dt", {"first": "brownian", "second": second, "n_paths": 2, "max_points": cap, "cases": ch}))
    for ch in _chunks([c for c in cpairs if c[4] <= 3], 400):
        blocks.append(("cross_dt", {"first": "heston", "second": "brownian", "n_paths": 1, "max_points": 40, "cases": ch}))
    # histories: features bound once, the derivative simulated over every sequence of (M/dt, n_paths) symbols
    symbols = [[5, 2], [3.5, 2], [8, 2], [5, 3]]
    ctx.alphabet("resimulate (M/dt, n_paths)", symbols)
    depth = ctx.pick(3, 4)
    hists = [list(h) for h in itertools.product(symbols, repeat=depth)]
    perms = [list(h) for h in itertools.permutations(symbols, 3)]
    hdts = [1 / 250, 0.1, 1 / 365] if ctx.quick else [d[1] for d in dts]
    for route in DERIVS:
        for kind in (["brownian"] if ctx.quick else ["brownian", "heston", "merton", "local_vol"]):
            for dt in hdts:
                if ctx.quick and route != "european" and dt == hdts[2]:
                    continue
                for dtype in (("float64",) if (ctx.quick and (route != "european" or dt != hdts[0])) else ("float64", "float32")):
                    hs = hists if (route == "european" and kind == "brownian" and (ctx.thorough or (dt == hdts[0] and dtype == "float64"))) or \
                        (ctx.thorough and kind == "brownian") else perms
                    if kind != "brownian":
                        hs = perms
                    for ch in _chunks(hs, 64):
                        blocks.append(("resimulate", {"primary": kind, "route": route, "dt": dt, "dtype": dtype,
                                                      "light": ctx.quick and route != "european", "histories": ch}))
    if ctx.quick:
        blocks.append(("resimulate", {"primary": "heston", "route": "european", "dt": 1 / 365, "dtype": "float64",
                                      "histories": perms}))

    # long grids (BrownianStock): rounding-sensitive k up to Klong, thorough: every k
    Klong = ctx.pick(3000, 6000)
    ctx.info["Klong"] = Klong
    n_long = 0
    for dsym in dts:
        sens = long_pairs(dsym, K + 1, Klong, only_sensitive=True)
        n_long += len(sens)
        for ch in _chunks(sens, 500):
            blocks.append(("long_grid", {"through_option": True, "cases": ch}))
        if ctx.thorough:
            for ch in _chunks(long_pairs(dsym, K + 1, 3000, only_sensitive=False), 1000):
                blocks.append(("long_grid", {"through_option": False, "cases": ch}))
    ctx.add("long_grid_rounding_sensitive_pairs", n_long)
    # local volatility: time-dependent sigma_fn
    lv_cases = [c for c in small_pairs if c[3] <= ctx.pick(5, 12)]
    for fn_name in SIGMA_FNS:
        for route in (["own", "european", "variance_swap"] if ctx.quick else ["own"] + DERIVS):
            for dtype in ("float64", "float32"):
                if ctx.quick and dtype == "float32" and route != "own":
                    continue
                for ch in _chunks(lv_cases, 200):
                    blocks.append(("local_vol", {"sigma_fn": fn_name, "route": route, "n_paths": 2, "dtype": dtype, "cases": ch}))
    # histories with "replace the underlier by attribute assignment"
    ops = ["sim2", "swapB", "swapC", "swapA", "sim3"]
    depth = ctx.pick(3, 4)
    shist = []
    for L in range(1, depth + 1):
        for h in itertools.product(ops, repeat=L):
            if h[-1].startswith("sim") and any(o.startswith("swap") for o in h) and \
                    not any(h[i].startswith("swap") and h[i + 1].startswith("swap") and h[i] == h[i + 1] for i in range(L - 1)):
                shist.append(list(h))
    ctx.alphabet("swap operations", ops)
    for route in DERIVS:
        for dts3, M, kindB in ([(1 / 250, 1 / 365, 0.01), 12 / 365, "heston"], [(0.1, 0.25, 0.01), 0.6, "merton"]):
            if ctx.quick and route != "european" and kindB == "merton":
                continue
            hs_ = shist if route == "european" else [h for h in shist if len(h) <= 3]
            for ch in _chunks(hs_, 64):
                blocks.append(("swap", {"route": route, "M": M, "dts": list(dts3), "kindB": kindB, "dtype": "float64",
                                        "histories": ch}))

    # forward start: strike fixed at floor(start/dt) also when the grid overshoots the maturity
    fs_cases = forward_start_cases(small_pairs if ctx.quick else [c for c in all_pairs if c[3] <= 40], ctx.pick(4, 12))
    fs_sens = sensitive_start_cases(dts, ctx.pick(60, 400))
    ctx.add("forward_start_rounding_sensitive_starts", len(fs_sens))
    fs_cases = fs_cases + fs_sens
    ctx.add("forward_start_cases", len(fs_cases))
    for prim, dtype, strike in (("brownian", "float64", 1.0), ("brownian", "float32", 0.875), ("merton", "float64", 1.0)):
        if ctx.quick and prim != "brownian":
            continue
        for ch in _chunks(fs_cases, 400):
            blocks.append(("forward_start", {"primary": prim, "dtype": dtype, "strike": strike, "n_paths": 3, "cases": ch}))

    # hedging instruments on different grids: ValueError, never a silently shaped hedge
    hg = []
    hdt = [d_[1] for d_ in dts][: ctx.pick(4, 9)]
    for dtA in hdt:
        for kA in ((3, 5) if ctx.quick else (2, 3, 5, 8)):
            for (dtP, kP, nP) in [(dtA, kA, 2), (dtA, kA + 2, 2), (dtA, kA - 1, 2), (dtA, kA, 3)] + \
                    [(o, kA, 2) for o in hdt if o != dtA] + [(o, max(1, round(kA * dtA / o)), 2) for o in hdt if o != dtA]:
                hg.append({"A": [dtA, kA, 2], "P": [dtP, kP, nP]})
    ctx.add("hedge_grid_cases", len(hg))
    for route in (["european", "variance_swap"] if ctx.quick else DERIVS):
        for ch in _chunks(hg, 100):
            blocks.append(("hedge_grids", {"route": route, "dtype": "float64", "cases": ch}))

    # every primary in the default dtype (float32) and explicit float32 with python-float dts whose float32 rounding goes
    # down (0.01, 0.1/3) and up (0.004, 0.1, 0.3): the step count is that of the PYTHON float dt
    f32_dts = list(dts) + [("0.3", 0.3, None, "0.3"), ("0.1/3", 0.1 / 3, None, None)]
    f32_pairs = [c for dsym in f32_dts for c in pairs_for(dsym, ctx.pick(4, 24))]
    ctx.add("float32_instrument_pairs", len(f32_pairs))
    for kind in PRIMARIES:
        for dtype in ("default", "float32"):
            if ctx.quick and dtype == "float32" and kind in SLOW:
                continue
            for ch in _chunks(f32_pairs, 400):
                blocks.append(("grid_steps", {"primary": kind, "route": "own", "n_paths": 1, "dtype": dtype, "cases": ch}))
        for ch in _chunks([c for c in f32_pairs if c[3] <= 3], 400):
            blocks.append(("grid_steps", {"primary": kind, "route": "european", "n_paths": 1, "dtype": "default", "cases": ch}))
    # tensor-valued dt, repeated simulate calls on one instrument
    tdts = [0.01, 0.004, 0.25, 0.1, 1 / 365] if ctx.quick else [d_[1] for d_ in dts] + [0.3]
    thists = [list(h) for h in itertools.product([3, 5, 2.5], repeat=3)] if ctx.thorough else \
        [[3, 3, 3], [3, 5, 3], [5, 2.5, 3], [2.5, 3, 5, 3]]
    for kind in PRIMARIES:
        for dtype in ("float32", "float64"):
            for route in ("own", "european"):
                if ctx.quick and route == "european" and kind != "brownian":
                    continue
                blocks.append(("tensor_dt", {"primary": kind, "dtype": dtype, "route": route, "dts": tdts, "histories": thists}))
    # one hedger, several derivatives
    rops = ["hedge_A", "input_B", "input_A", "hedge_B"]
    rh = [list(h) for L in range(1, ctx.pick(3, 4) + 1) for h in itertools.product(rops, repeat=L) if h[-1].startswith("input") or L == 1 or h[-1] == "hedge_B"]
    ctx.alphabet("hedger_reuse operations", rops)
    for cfg in ("other_maturity", "other_strike_same_underlier", "other_underlier_dt", "other_type_and_paths"):
        for inputs in (["log_moneyness", "time_to_maturity", "volatility"], ["moneyness", "expiry_time"]):
            for (dtA, kA) in ([(1 / 250, 5)] if ctx.quick else [(1 / 250, 5), (0.1, 4), (1 / 365, 7)]):
                for ch in _chunks(rh, 64):
                    blocks.append(("hedger_reuse", {"config": cfg, "inputs": inputs, "A": [dtA, kA], "dtype": "float64",
                                                    "histories": ch}))

    # a listed derivative shares its underlier with another derivative
    lops = ["sim_listed", "sim_exotic", "sim_stock", "set_buffer"]
    lh = [list(h) for L in range(1, ctx.pick(3, 4) + 1) for h in itertools.product(lops, repeat=L)]
    ctx.alphabet("listed_shared operations", lops)
    for dt_ in ([1 / 250] if ctx.quick else [d_[1] for d_ in dts]):
        for ch in _chunks(lh, 64):
            blocks.append(("listed_shared", {"dt": dt_, "dtype": "float64", "histories": ch}))
    # payoffs vs the running-extremum features on ALL scripted paths
    for T_ in ([2, 3, 4] if ctx.quick else [2, 3, 4, 5, 6]):
        for K_ in (1.0, 1.25, 0.75):
            for dtype in ("float64", "float32"):
                blocks.append(("payoff_grid", {"T": T_, "A": [0.75, 1.0, 1.25], "strike": K_, "dtype": dtype}))

    # payoffs are read at the last registered point: every (M, dt) incl. non-integer ratios and quotients rounding below k
    below_pairs = [c for dsym in dts for c in long_pairs(dsym, K + 1, ctx.pick(500, 3000), only_sensitive=True) if c[0] / c[1] < c[3]]
    ctx.add("payoff_pairs_quotient_below_integer", len(below_pairs) + len([c for c in all_pairs if c[0] / c[1] < c[3] and R.expected_points(c[0], c[1])[1] == "integer"]))
    for route, call in (("european", True), ("european", False), ("european_binary", True), ("european_binary", False),
                        ("variance_swap", True), ("forward_start", True)):
        main = route == "european" and call
        cases = (all_pairs + below_pairs) if (main or ctx.thorough) else (slow_pairs if route.startswith("european") else small_pairs)
        for dtype in (("float64", "float32") if (main or ctx.thorough) else ("float64",)):
            for ch in _chunks(cases, 500):
                blocks.append(("payoff_last_point", {"route": route, "call": call, "strike": 0.04 if route == "variance_swap" else 1.0,
                                                     "dtype": dtype, "cases": ch}))
    # H >= 2 hedging instruments with state-independent inputs
    mh_cases = [c for c in small_pairs if c[3] >= 2 and c[3] <= ctx.pick(5, 8)] if ctx.quick else [c for c in all_pairs if 2 <= c[3] <= 12]
    for H_ in (2, 3):
        for inputs in (["time_to_maturity"], ["log_moneyness", "time_to_maturity"]):
            for hedge in ("stocks", "stock+listed"):
                for ch in _chunks(mh_cases, 200):
                    blocks.append(("multi_hedge", {"H": H_, "inputs": inputs, "hedge": hedge, "dtype": "float64", "cases": ch}))

    if ctx.thorough:
        for name in ("grid_steps", "ttm", "grid_use", "cross_dt", "resimulate", "long_grid", "local_vol", "swap",
                     "forward_start", "hedge_grids", "tensor_dt", "hedger_reuse", "listed_shared", "payoff_grid",
                     "payoff_last_point", "multi_hedge"):
            ctx.run_parallel(name, [b for n, b in blocks if n == name])
    else:
        for name, b in blocks:
            ctx.run(name, b)

"""C16 - computations never mutate market data nor depend on call history.
Engines: grid (call matrix) + bfs (operation histories).

Families
  pure_calls        every public pure computation of pfhedge.nn.functional (payoffs, utilities, risk
                    measures, clamps, realized_*, pl/terminal_value, ncdf/npdf/d1/d2, ww_width, svi, bilerp,
                    box_muller, *all* bs_* functions found by introspection), autogreek.*, bisect /
                    find_implied_volatility, every criterion's forward/cash, the Clamp/LeakyClamp/SVI/MLP/Naked
                    modules and the four BS modules with explicit tensors - x dtype x argument form
                    {leaf tensor, view into a larger base with sentinels}.  Every caller tensor is
                    snapshotted bitwise (values of the whole base, dtype, shape, storage) before/after.
  instrument_calls  the call matrix on real instruments: every primary type x every derivative type,
                    holding all joint paths over the alphabets: payoff, every feature get(None)/get(i)
                    incl. log variants, listed spot through pricers that hand out the series itself / a
                    view / fresh tensors, FeatureList, ModuleOutput, Hedger.compute_hedge/portfolio/pl/
                    get_input for nine model kinds x hedge lists, compute_loss/price/fit on a scripted
                    simulate x criteria, BS module methods and WhalleyWilmott with None -> derivative
                    buffers and with explicit tensors, autogreek on the series, feature binding
                    independence, the real simulators with tensor-valued init_state reused across calls, access order (one bound feature / feature list / ModuleOutput / hedger asked for
                    time steps along a de Bruijn word over {None,0..T-1}: every pair (quick) or triple (thorough)
                    of consecutive requests, each value == the same request on a freshly bound object).  All buffers of all instruments of the world and all caller tensors
                    are snapshotted before/after each call; each call is made twice (same result).
  histories         bfs over operation histories on one hedger (six variants), optionally a copy.deepcopy of it, with
                    three derivatives (different underlier types, path counts, dtypes, lengths; one hedged with a
                    listed option on the same stock); operations simulate / compute_hedge / compute_pl /
                    compute_loss (value and gradient) / price / fit / to / get_input / eval / train / deepcopy /
                    evaluation by the copy / failing price, compute_loss, compute_pl (mismatched hedge list) /
                    torch.set_default_dtype; per transition the frame rule incl. autograd state, the parameter
                    frame, no shared state between a hedger and its copy, unchanged ambient state (grad mode,
                    default dtype, training flag) and three differential oracles (fresh hedger on the live
                    instruments; fresh hedger in the world of the data-changing operations only; the latter
                    under the other torch default dtype).
  shared_feature_objects  one feature object (PrevHedge instance, FeatureList / ModuleOutput / nested ModuleOutput with a
                    prev_hedge inside) in the inputs of two hedgers, used by them in every sequence of (hedger,
                    derivative, hedge|pl|loss) up to length 2|3; every chain F.of(d,h).of(d',h')... up to length 2|3
                    (h = none | A | B); the last use / the finally bound object == the same in a fresh world with a
                    fresh feature object, bitwise.
"""
from __future__ import annotations

import inspect
import os

import torch

from mc.core import market
from mc.core.explore import all_paths, bfs
from mc.models import c16_world as W
from mc.models.c16_world import DT, Caller, Zoo

FAMILIES = {}


def family(fn):
    FAMILIES[fn.__name__] = fn
    return fn


# ----------------------------------------------------------------------------
# running one call of a matrix
# ----------------------------------------------------------------------------

def _spec(site, label, prep, nondet=False, sim=False):
    return {"site": site, "label": label, "prep": prep, "nondet": nondet, "sim": sim}


def _run_call(ctx, spec, block, dtype, form, zoo=None):
    """Snapshot, call, snapshot, compare; call again, compare the results."""
    site, label = spec["site"], spec["label"]
    fam = "instrument_calls" if zoo is not None else "pure_calls_family"

    def violation(*a, **k):
        ctx.violation(*a, family=fam, **k)
    c = Caller(dtype, form)
    if zoo is not None:
        zoo.reset()
    prepared = spec["prep"](c)
    if not isinstance(prepared, dict):
        prepared = {"thunk": prepared}
    thunk, cleanup, expect = prepared["thunk"], prepared.get("cleanup"), prepared.get("expect")
    mini = dict(block)
    mini["only"] = [label]
    mini["form"] = form
    try:
        s0 = W.snap_prims(zoo.prims) if zoo is not None else None
        decl0 = [q.dtype for q in zoo.prims] if zoo is not None else None
        a0 = c.snap()
        raised = False
        try:
            with torch.no_grad() if prepared.get("no_grad") else torch.enable_grad():
                out1 = thunk()
        except Exception as e:       # every call of the matrix is inside the documented domain: a value is due
            from mc.core.runner import blame
            where = blame(e)
            if where is None:
                raise
            raised, out1 = True, None
            violation(site, f"raises:{type(e).__name__}",
                      f"{label}: {type(e).__name__}: {str(e)[:200]} (raised in {where})",
                      observed=f"{type(e).__name__}: {str(e)[:300]}", expected="a value", block=mini)
        s1 = W.snap_prims(zoo.prims) if zoo is not None else None
        mutated = False
        if zoo is not None:
            for i, (q, dt0) in enumerate(zip(zoo.prims, decl0)):
                if q.dtype != dt0:
                    mutated = True
                    violation(site, "declared_dtype_changed",
                              f"{label}: the declared dtype of instrument #{i} went {dt0} -> {q.dtype} "
                              f"({zoo.kind}/{zoo.dkind}, {block['dtype']})", observed=str(q.dtype), expected=str(dt0), block=mini)
                    q.to(dt0)
            diffs = W.diff_prims(s0, s1)
            if spec["sim"] == "real":
                # the real simulator ran (seeded torch RNG): the first primary's series are new; nothing else changes
                diffs = [d for d in diffs if d[0][0] != 0]
            elif spec["sim"]:
                # frame rule for calls that simulate: the simulated primary's series are replaced
                # (new storage) by exactly what the simulator delivered; nothing else changes
                diffs = [d for d in diffs if not (d[0][0] == 0 and d[1] == "storage")]
                for name, t in zoo.script.items():
                    got = zoo.p.get_buffer(name)
                    if not W.same_tensor(got.detach(), t):
                        mutated = True
                        violation(site, f"simulated_series_altered:{name}",
                                  f"{label}: after the call the series '{name}' of the simulated underlier is not "
                                  f"what simulate() delivered ({zoo.kind}/{zoo.dkind}, {block['dtype']})",
                                  observed=W.describe(got), expected=W.describe(t), block=mini)
            for (i, name), kind in diffs:
                mutated = True
                before, after = s0[0].get((i, name)), s1[0].get((i, name))
                violation(site, f"mutates_buffer:{name}:{kind}",
                          f"{label}: buffer '{name}' of instrument #{i} ({zoo.kind if i == 0 else 'brownian'}) "
                          f"changed ({kind}) under {zoo.dkind}, {block['dtype']}",
                          observed=None if after is None else W.describe(after[0]),
                          expected=None if before is None else W.describe(before[0]), block=mini)
            grad, version = W.flag_changes(s0, s1)
            for (i, name), st0, st1 in grad:
                # the autograd state (requires_grad, is_leaf, grad_fn) of a series is observable state: later
                # computations on it build graphs / return tensors that require grad
                mutated = True
                violation(site, f"autograd_state_changed:{name}",
                          f"{label}: (requires_grad, is_leaf, grad_fn) of buffer '{name}' of instrument #{i} went "
                          f"{st0} -> {st1} under {zoo.kind}/{zoo.dkind}, {block['dtype']}",
                          observed=list(st1), expected=list(st0), block=mini)
            if version and not diffs:
                ctx.add("value_preserving_inplace_writes_on_buffers", len(version))
            ctx.add("buffers_snapshotted", len(s0[0]))
        bad, flags = c.diff(a0)
        for name, kind in bad:
            mutated = True
            violation(site, f"mutates_argument:{name}:{kind}",
                      f"{label}: caller tensor '{name}' changed ({kind}), form={form}, {block['dtype']}",
                      observed=W.describe(c.t[name][1]), expected=W.describe(a0[name][0]), block=mini)
        for name, st0, st1 in flags:
            mutated = True
            violation(site, f"autograd_state_changed:{name}",
                      f"{label}: (requires_grad, is_leaf, grad_fn) of caller tensor '{name}' went {st0} -> {st1}, "
                      f"form={form}, {block['dtype']}", observed=list(st1), expected=list(st0), block=mini)
        ctx.add("caller_tensors_snapshotted", len(a0))
        ctx.tick(1, nontrivial=1 if (not spec["nondet"] and W.depends_on_data(out1)) else 0)
        if expect is not None and not raised:
            want = expect()
            if not W.same_result(out1, want):
                msg, obs, exp = prepared.get("expect_msg", "result differs from the independent evaluation"), out1, want
                if prepared.get("first_diff"):
                    key = next(k for k in want if not W.same_result(out1.get(k), want[k]))
                    msg, obs, exp = msg + f"{key} after {list(want)[:list(want).index(key)][-3:]}", out1[key], want[key]
                violation(site, prepared.get("expect_class", "differs_from_fresh"), f"{label}: {msg}",
                          observed=W.describe(obs), expected=W.describe(exp), block=mini)
        if not mutated and not raised and not spec["nondet"] and not prepared.get("no_repeat"):
            try:
                out2 = thunk()
            except Exception as e:
                from mc.core.runner import blame
                if blame(e) is None:
                    raise
                out2 = f"{type(e).__name__}: {str(e)[:200]}"
            if not W.same_result(out1, out2):
                violation(site, "not_repeatable",
                          f"{label}: the same call on the same data gives a different result the second time",
                          observed=W.describe(out2), expected=W.describe(out1), block=mini)
        if isinstance(out1, torch.Tensor) and out1.numel() and not spec["nondet"]:
            ctx.outcome((site, round(float(out1.detach().flatten().nan_to_num(nan=-1.0, posinf=9e9, neginf=-9e9)
                                           .to(torch.float64).sum()), 6)))
    finally:
        if cleanup is not None:
            cleanup()
    return out1


def _unique_labels(calls):
    seen = set()
    for s in calls:
        if s["label"] in seen:
            from mc.core.runner import HarnessError
            raise HarnessError(f"duplicate call label {s['label']}")
        seen.add(s["label"])


def _selected(calls, block):
    only = block.get("only")
    if only is None:
        return calls
    only = set(only)
    return [s for s in calls if s["label"] in only]


# ----------------------------------------------------------------------------
# family 1: pure functions on caller tensors
# ----------------------------------------------------------------------------

_S = [-0.25, 0.0, 0.125, 0.375]       # log moneyness
_M = [0.0, 0.125, 0.25, 0.375]        # running maximum of it (>= log moneyness, one path already above the strike)
_T = [0.125, 0.25, 0.0625, 0.5]
_V = [0.2, 0.25, 0.3, 0.2]
_X = [-0.75, 0.5, 0.25, -0.125, 1.5, 0.625]
_Y = [0.125, -0.25, 0.0, 0.375, 0.25, -0.5]


def _bs_kwargs(fn, c, strike="float", call=True):
    """Arguments of a bs_* function / BS-module method by parameter name."""
    kw = {}
    for name in inspect.signature(fn).parameters:
        if name == "log_moneyness":
            kw[name] = c.mk(name, _S)
        elif name == "max_log_moneyness":
            kw[name] = c.mk(name, _M)
        elif name == "time_to_maturity":
            kw[name] = c.mk(name, _T)
        elif name == "volatility":
            kw[name] = c.mk(name, _V)
        elif name == "strike":
            kw[name] = 1.25 if strike == "float" else c.mk(name, 1.25)
        elif name == "call":
            kw[name] = call
    return kw


def pure_calls():
    import pfhedge.nn.functional as F
    from pfhedge import autogreek
    from pfhedge._utils.bisect import bisect, find_implied_volatility
    import pfhedge.nn as nn
    calls = []

    def add(site, label, prep, **kw):
        calls.append(_spec(site, label, prep, **kw))

    paths = all_paths(W.STOCK_ALPHABET, 3).tolist()
    # -- payoffs ---------------------------------------------------------------
    for name in ("european_payoff", "lookback_payoff", "american_binary_payoff", "european_binary_payoff"):
        for call in (True, False):
            add(f"functional.{name}", f"{name}(call={call})",
                lambda c, name=name, call=call: (lambda x=c.mk("input", paths): getattr(F, name)(x, call=call, strike=1.25)))
    add("functional.european_forward_start_payoff", "european_forward_start_payoff",
        lambda c: (lambda x=c.mk("input", paths): F.european_forward_start_payoff(x, strike=1.125, start_index=1)))
    # -- utilities and risk measures -----------------------------------------------
    add("functional.exp_utility", "exp_utility", lambda c: (lambda x=c.mk("input", _X): F.exp_utility(x, a=1.5)))
    for a in (0.5, 1.0):
        add("functional.isoelastic_utility", f"isoelastic_utility(a={a})",
            lambda c, a=a: (lambda x=c.mk("input", [abs(v) + 0.25 for v in _X]): F.isoelastic_utility(x, a=a)))
    add("functional.entropic_risk_measure", "entropic_risk_measure",
        lambda c: (lambda x=c.mk("input", _X): F.entropic_risk_measure(x, a=2.0)))
    two_col = [[x, y] for x, y in zip(_X, _Y)]
    for dim in (None, 0):
        data = _X if dim is None else two_col
        add("functional.topp", f"topp(dim={dim})",
            lambda c, d=data, dim=dim: (lambda x=c.mk("input", d): tuple(F.topp(x, 0.5, dim=dim, largest=False))))
        add("functional.expected_shortfall", f"expected_shortfall(dim={dim})",
            lambda c, d=data, dim=dim: (lambda x=c.mk("input", d): F.expected_shortfall(x, 0.5, dim=dim)))
        for p in (0.1, 0.5, 0.95):
            add("functional.value_at_risk", f"value_at_risk(p={p},dim={dim})",
                lambda c, d=data, dim=dim, p=p: (lambda x=c.mk("input", d): F.value_at_risk(x, p, dim=dim)))
        add("functional.quadratic_cvar", f"quadratic_cvar(dim={dim})",
            lambda c, d=data, dim=dim: (lambda x=c.mk("input", d): F.quadratic_cvar(x, 2.0, dim=dim)))
    # -- clamps -------------------------------------------------------------------------
    lo, hi = [-0.5, 0.0, 0.5, 0.25, 1.0, 0.0], [0.5, 0.25, 0.0, 0.25, 2.0, 1.0]
    for inv in ("mean", "max"):
        for bounds in ("both", "min", "max", "scalar"):
            def prep(c, inv=inv, bounds=bounds, which="leaky"):
                x = c.mk("input", _X)
                mn = c.mk("min", lo) if bounds in ("both", "min") else (c.mk("min", -0.25) if bounds == "scalar" else None)
                mx = c.mk("max", hi) if bounds in ("both", "max") else (c.mk("max", 0.5) if bounds == "scalar" else None)
                if which == "leaky":
                    return lambda: F.leaky_clamp(x, mn, mx, clamped_slope=0.25, inverted_output=inv)
                if which == "clamp":
                    return lambda: F.clamp(x, mn, mx, inverted_output=inv)
                if which == "LeakyClamp":
                    return lambda: nn.LeakyClamp(0.25, inverted_output=inv)(x, mn, mx)
                return lambda: nn.Clamp(inverted_output=inv)(x, mn, mx)
            for which, site in (("leaky", "functional.leaky_clamp"), ("clamp", "functional.clamp"),
                                ("LeakyClamp", "LeakyClamp"), ("Clamp", "Clamp")):
                add(site, f"{which}({bounds},{inv})", lambda c, p=prep, w=which: p(c, which=w))
    # -- realized, pl ----------------------------------------------------------------------------
    add("functional.realized_variance", "realized_variance",
        lambda c: (lambda x=c.mk("input", paths): F.realized_variance(x, dt=1 / 256)))
    add("functional.realized_variance", "realized_variance(dt tensor)",
        lambda c: (lambda x=c.mk("input", paths), dt=c.mk("dt", 1 / 256): F.realized_variance(x, dt=dt)))
    add("functional.realized_volatility", "realized_volatility",
        lambda c: (lambda x=c.mk("input", paths): F.realized_volatility(x, dt=1 / 256)))
    spot3 = [[[1.0, 1.5, 0.75], [2.0, 1.0, 1.25]], [[1.0, 0.75, 0.5], [2.0, 2.5, 2.25]]]
    unit3 = [[[0.5, -0.25, 0.75], [1.0, 0.5, 0.5]], [[-0.5, 0.25, 0.25], [0.0, 1.5, -1.0]]]
    for fn_name in ("pl", "terminal_value"):
        for cost in (None, [0.125, 0.25]):
            for pay in (False, True):
                for first in (True, False):
                    def prep(c, fn_name=fn_name, cost=cost, pay=pay, first=first):
                        s, u = c.mk("spot", spot3), c.mk("unit", unit3)
                        z = c.mk("payoff", [0.375, 1.0]) if pay else None
                        return lambda: getattr(F, fn_name)(s, u, cost=cost, payoff=z, deduct_first_cost=first)
                    add(f"functional.{fn_name}", f"{fn_name}(cost={cost},payoff={pay},first={first})", prep)
    # -- normal helpers ----------------------------------------------------------------------------
    add("functional.ncdf", "ncdf", lambda c: (lambda x=c.mk("input", _X): F.ncdf(x)))
    add("functional.npdf", "npdf", lambda c: (lambda x=c.mk("input", _X): F.npdf(x)))
    for name in ("d1", "d2"):
        add(f"functional.{name}", name, lambda c, name=name: (lambda kw=_bs_kwargs(getattr(F, name), c): getattr(F, name)(**kw)))
    add("functional.ww_width", "ww_width",
        lambda c: (lambda g=c.mk("gamma", _V), s=c.mk("spot", [1.0, 1.25, 0.75, 1.5]), k=c.mk("cost", 0.125),
                   a=c.mk("a", 2.0): F.ww_width(g, s, cost=k, a=a)))
    add("functional.svi_variance", "svi_variance",
        lambda c: (lambda x=c.mk("input", _S), a=c.mk("a", 0.03), b=c.mk("b", 0.1), rho=c.mk("rho", -0.5),
                   m=c.mk("m", 0.0625), s=c.mk("sigma", 0.25): F.svi_variance(x, a, b, rho, m, s)))
    add("SVIVariance", "SVIVariance", lambda c: (lambda x=c.mk("input", _S): nn.SVIVariance(0.03, 0.1, -0.5, 0.0625, 0.25)(x)))
    add("functional.bilerp", "bilerp",
        lambda c: (lambda a=c.mk("input1", _S), b=c.mk("input2", _M), d=c.mk("input3", _T), e=c.mk("input4", _V),
                   w1=c.mk("weight1", [0.0, 0.25, 1.0, 1.5]), w2=c.mk("weight2", 0.5): F.bilerp(a, b, d, e, w1, w2)))
    add("functional.box_muller", "box_muller",
        lambda c: (lambda a=c.mk("input1", [0.0, 0.25, 0.5, 0.875]), b=c.mk("input2", [0.125, 0.0, 0.75, 0.5]):
                   tuple(F.box_muller(a, b))))
    # -- every bs_* function ---------------------------------------------------------------------------
    for name in sorted(n for n in dir(F) if n.startswith("bs_")):
        fn = getattr(F, name)
        params = inspect.signature(fn).parameters
        for strike in (("float", "tensor") if "strike" in params else ("float",)):
            for call in ((True, False) if "call" in params else (True,)):
                add(f"functional.{name}", f"{name}(strike={strike},call={call})",
                    lambda c, fn=fn, strike=strike, call=call: (lambda kw=_bs_kwargs(fn, c, strike, call): fn(**kw)))
    # -- BS modules with explicit tensors -------------------------------------------------------------------
    for cls_name, kws in (("BSEuropeanOption", [{"call": True}, {"call": False}]),
                          ("BSEuropeanBinaryOption", [{"call": True}, {"call": False}]),
                          ("BSAmericanBinaryOption", [{}]), ("BSLookbackOption", [{}])):
        for kw0 in kws:
            def module(cls_name=cls_name, kw0=kw0):
                return getattr(nn, cls_name)(strike=1.25, **kw0)
            tag = f"{cls_name}({'put' if kw0.get('call') is False else 'call'})"
            for meth in ("price", "delta", "gamma", "vega", "theta"):
                add(f"{cls_name}.{meth}", f"{tag}.{meth}",
                    lambda c, module=module, meth=meth: _module_call(c, module(), meth))
            add(f"{cls_name}.forward", f"{tag}.forward", lambda c, module=module: _module_forward(c, module()))
            add(f"{cls_name}.implied_volatility", f"{tag}.implied_volatility",
                lambda c, module=module: _module_iv(c, module()))
    # -- autogreek ----------------------------------------------------------------------------------------------
    def price_spot(spot, volatility, time_to_maturity):
        return F.bs_european_price((spot / 1.25).log(), time_to_maturity, volatility, strike=1.25)

    def price_moneyness(moneyness, volatility, time_to_maturity, strike):
        return F.bs_european_price(moneyness.log(), time_to_maturity, volatility, strike=strike)

    def price_variance(spot, variance, time_to_maturity):
        return F.bs_european_price((spot / 1.25).log(), time_to_maturity, variance.sqrt(), strike=1.25)

    def delta_spot(spot, volatility, time_to_maturity):
        return F.bs_european_delta((spot / 1.25).log(), time_to_maturity, volatility)

    spots = [1.0, 1.25, 1.5, 0.875]
    for g in ("delta", "gamma", "vega", "theta"):
        add(f"autogreek.{g}", f"autogreek.{g}(spot)",
            lambda c, g=g: (lambda s=c.mk("spot", spots), v=c.mk("volatility", _V), t=c.mk("time_to_maturity", _T):
                            getattr(autogreek, g)(price_spot, spot=s, volatility=v, time_to_maturity=t)))
        add(f"autogreek.{g}", f"autogreek.{g}(moneyness,strike)",
            lambda c, g=g: (lambda m=c.mk("moneyness", [0.8, 1.0, 1.2, 0.7]), k=c.mk("strike", 1.25),
                            v=c.mk("volatility", _V), t=c.mk("time_to_maturity", _T):
                            getattr(autogreek, g)(price_moneyness, moneyness=m, strike=k, volatility=v, time_to_maturity=t)))
        add(f"autogreek.{g}", f"autogreek.{g}(log_moneyness,strike)",
            lambda c, g=g: (lambda s=c.mk("log_moneyness", _S), v=c.mk("volatility", _V), t=c.mk("time_to_maturity", _T):
                            getattr(autogreek, g)(F.bs_european_price, log_moneyness=s, strike=1.25, volatility=v,
                                                  time_to_maturity=t)))
    add("autogreek.vega", "autogreek.vega(variance)",
        lambda c: (lambda s=c.mk("spot", spots), v=c.mk("variance", [0.04, 0.0625, 0.09, 0.04]), t=c.mk("time_to_maturity", _T):
                   autogreek.vega(price_variance, spot=s, variance=v, time_to_maturity=t)))
    add("autogreek.gamma_from_delta", "autogreek.gamma_from_delta",
        lambda c: (lambda s=c.mk("spot", spots), v=c.mk("volatility", _V), t=c.mk("time_to_maturity", _T):
                   autogreek.gamma_from_delta(delta_spot, spot=s, volatility=v, time_to_maturity=t)))
    # -- bisect ----------------------------------------------------------------------------------------------------------
    add("bisect", "bisect(increasing)",
        lambda c: (lambda tg=c.mk("target", [0.25, 0.5, 0.75]), lo_=c.mk("lower", [-4.0, -4.0, -3.0]),
                   up=c.mk("upper", [4.0, 3.0, 4.0]): bisect(torch.sigmoid, tg, lo_, up, precision=1e-4)))
    add("bisect", "bisect(decreasing)",
        lambda c: (lambda tg=c.mk("target", [0.25, 0.5, 0.75]), lo_=c.mk("lower", [-4.0, -4.0, -3.0]),
                   up=c.mk("upper", [4.0, 3.0, 4.0]): bisect(lambda x: torch.sigmoid(-x), tg, lo_, up, precision=1e-4)))
    add("bisect", "bisect(float bounds)",
        lambda c: (lambda tg=c.mk("target", [1.5, 2.0]): bisect(torch.exp, tg, 0.0, 1.0, precision=1e-4)))
    add("find_implied_volatility", "find_implied_volatility",
        lambda c: (lambda pr=c.mk("price", [0.02, 0.05, 0.125, 0.25]), s=c.mk("log_moneyness", _S),
                   t=c.mk("time_to_maturity", _T):
                   find_implied_volatility(F.bs_european_price, pr, log_moneyness=s, time_to_maturity=t, precision=1e-4)))
    # -- criteria ------------------------------------------------------------------------------------------------------------
    crits = [("EntropicRiskMeasure", lambda: nn.EntropicRiskMeasure(2.0), False),
             ("EntropicLoss", lambda: nn.EntropicLoss(1.5), False),
             ("IsoelasticLoss", lambda: nn.IsoelasticLoss(0.5), True),
             ("IsoelasticLoss", lambda: nn.IsoelasticLoss(1.0), True),
             ("ExpectedShortfall", lambda: nn.ExpectedShortfall(0.5), False),
             ("QuadraticCVaR", lambda: nn.QuadraticCVaR(2.0), False),
             ("OCE", lambda: _oce(), False)]
    for k, (cname, mk, positive) in enumerate(crits):
        xs = [abs(v) + 1.0 for v in _X] if positive else _X
        cols = [[a, b + 2.0] for a, b in zip(xs, xs[::-1])] if positive else two_col
        tg = [v / 4 for v in _Y]
        add(f"{cname}.forward", f"{cname}#{k}.forward(input)", lambda c, mk=mk, xs=xs: (lambda x=c.mk("input", xs): mk()(x)))
        add(f"{cname}.forward", f"{cname}#{k}.forward(input,target)",
            lambda c, mk=mk, xs=xs, tg=tg: (lambda x=c.mk("input", xs), t=c.mk("target", tg): mk()(x, t)))
        add(f"{cname}.forward", f"{cname}#{k}.forward(input 2d,target)",
            lambda c, mk=mk, cols=cols: (lambda x=c.mk("input", cols), t=c.mk("target", 0.125): mk()(x, t)))
        add(f"{cname}.cash", f"{cname}#{k}.cash(input,target)",
            lambda c, mk=mk, xs=xs, tg=tg: (lambda x=c.mk("input", xs), t=c.mk("target", tg): mk().cash(x, t)))
        add(f"{cname}.cash", f"{cname}#{k}.cash(input)", lambda c, mk=mk, xs=xs: (lambda x=c.mk("input", xs): mk().cash(x)))
    # -- small modules ----------------------------------------------------------------------------------------------------------
    add("Naked", "Naked", lambda c: (lambda x=c.mk("input", two_col): nn.Naked(2)(x)))

    def mlp_prep(c):
        m = nn.MultiLayerPerceptron(2, 1, n_layers=2, n_units=3)
        with torch.no_grad():
            for i, p in enumerate(m.parameters()):
                p.copy_(torch.linspace(-0.75, 0.5, p.numel()).reshape(p.shape) + i / 16)
        m = m.to(c.dtype)
        x = c.mk("input", two_col)
        return lambda: m(x)
    add("MultiLayerPerceptron", "MultiLayerPerceptron", mlp_prep)
    return calls


def _module_call(c, m, meth):
    fn = getattr(m, meth)
    kw = {}
    for name in inspect.signature(fn).parameters:
        if name in ("log_moneyness", "max_log_moneyness", "time_to_maturity", "volatility"):
            kw[name] = c.mk(name, {"log_moneyness": _S, "max_log_moneyness": _M, "time_to_maturity": _T,
                                   "volatility": _V}[name])
    return lambda: fn(**kw)


def _module_forward(c, m):
    cols = {"log_moneyness": _S, "max_log_moneyness": _M, "time_to_maturity": _T, "volatility": _V}
    x = c.mk("input", [[cols[n][i] for n in m.inputs()] for i in range(len(_S))])
    return lambda: m(x)


def _module_iv(c, m):
    kw = {}
    for name in inspect.signature(m.implied_volatility).parameters:
        if name in ("log_moneyness", "max_log_moneyness", "time_to_maturity"):
            kw[name] = c.mk(name, {"log_moneyness": _S, "max_log_moneyness": _M, "time_to_maturity": _T}[name])
    kw["price"] = c.mk("price", [0.25, 0.3, 0.35, 0.45])
    return lambda: m.implied_volatility(precision=1e-3, **kw)


@family
def pure_calls_family(ctx, block):
    dtype = DT[block["dtype"]]
    calls = pure_calls()
    _unique_labels(calls)
    for spec in _selected(calls, block):
        for form in ([block["form"]] if "form" in block else ["leaf", "view"]):
            _run_call(ctx, spec, {k: v for k, v in block.items() if k != "only"}, dtype, form)


# ----------------------------------------------------------------------------
# family 2: the call matrix on instruments
# ----------------------------------------------------------------------------

def access_sequence(symbols, order):
    """Linearised de Bruijn word: every `order`-tuple over the symbols occurs as consecutive requests."""
    k = len(symbols)
    a = [0] * (k * order)
    word = []

    def db(t, p):
        if t > order:
            if order % p == 0:
                word.extend(a[1:p + 1])
        else:
            a[t] = a[t - p]
            db(t + 1, p)
            for j in range(a[t - p] + 1, k):
                a[t] = j
                db(t + 1, t)
    db(1, 1)
    word = word + word[:order - 1]
    return [symbols[i] for i in word]


def _features_for(z):
    """(label, site, factory of an unbound feature) for every feature applicable to the zoo's derivative
    (listed-price features are handled with the pricers)."""
    import pfhedge.features as PF
    from pfhedge.features.features import LogMoneyness, MaxLogMoneyness, UnderlierLogSpot
    K = z.K
    out = []
    if z.is_option:
        out += [("moneyness", "Moneyness.get", lambda: PF.get_feature("moneyness")),
                ("log_moneyness", "Moneyness(log=True).get", lambda: PF.get_feature("log_moneyness")),
                ("Moneyness(log=True)", "Moneyness(log=True).get", lambda: PF.Moneyness(log=True)),
                ("LogMoneyness()", "Moneyness(log=True).get", lambda: LogMoneyness()),
                ("max_moneyness", "MaxMoneyness.get", lambda: PF.get_feature("max_moneyness")),
                ("max_log_moneyness", "MaxMoneyness(log=True).get", lambda: PF.get_feature("max_log_moneyness")),
                ("MaxLogMoneyness()", "MaxMoneyness(log=True).get", lambda: MaxLogMoneyness()),
                ("time_to_maturity", "TimeToMaturity.get", lambda: PF.get_feature("time_to_maturity")),
                ("expiry_time", "TimeToMaturity.get", lambda: PF.get_feature("expiry_time"))]
    out += [("underlier_spot", "UnderlierSpot.get", lambda: PF.get_feature("underlier_spot")),
            ("UnderlierSpot(log=True)", "UnderlierSpot(log=True).get", lambda: PF.UnderlierSpot(log=True)),
            ("UnderlierLogSpot()", "UnderlierSpot(log=True).get", lambda: UnderlierLogSpot()),
            ("Barrier(up)", "Barrier.get", lambda: PF.Barrier(K, up=True)),
            ("Barrier(down)", "Barrier.get", lambda: PF.Barrier(K, up=False)),
            ("zeros", "Zeros.get", lambda: PF.get_feature("zeros")),
            ("ones", "Ones.get", lambda: PF.Ones()),
            ("empty", "Empty.get", lambda: PF.get_feature("empty"))]
    if z.has_vol:
        out += [("volatility", "Volatility.get", lambda: PF.get_feature("volatility")),
                ("variance", "Variance.get", lambda: PF.get_feature("variance"))]
    return out


def _state_independent_inputs(z):
    """Input list for the generic linear models: every deterministic applicable feature incl. log variants."""
    import pfhedge.features as PF
    feats = []
    if z.is_option:
        feats += ["moneyness", "log_moneyness", "max_moneyness", "max_log_moneyness", "time_to_maturity"]
    feats += ["underlier_spot", PF.UnderlierSpot(log=True), PF.Barrier(z.K, up=True)]
    if z.has_vol:
        feats += ["volatility", "variance"]
    return feats


def _fill(module, seed, dtype):
    g = torch.Generator().manual_seed(15485863 + seed)
    with torch.no_grad():
        for p in module.parameters():
            p.copy_(torch.randint(-12, 13, p.shape, generator=g).to(torch.float32) / 16 + 1 / 32)
    return module.to(dtype)


#: criteria whose cash() is the default HedgeLoss.cash: a bisection with *absolute* precision 1e-6, unattainable in
#: float32 once |P&L| >= 8 (ulp > 1e-6; e.g. variance-swap payoffs ~1e2: RuntimeError after 1e5 iterations).  That is
#: a matter of C06/C19, so the call matrix evaluates these in float64 only.
DEFAULT_CASH = ("OCE",)


def zoo_calls(z, seed, tier="quick"):
    """All calls of one world.  In the quick tier the complete list is used in the 'rich' worlds (a cover in which
    every primary type meets two derivative types and every derivative type at least two primary types); the other
    worlds skip the variants that only multiply hedge lists / criteria (every call *kind* is still made there)."""
    rich = tier != "quick" or z.spec.get("rich", False)
    import pfhedge.features as PF
    import pfhedge.nn as nn
    from pfhedge import autogreek
    import pfhedge.nn.functional as F
    calls = []
    T = z.T
    TS = [None, 0, 1, T - 1]

    def add(site, label, prep, **kw):
        calls.append(_spec(site, label, prep, **kw))

    d, p = z.d, z.p
    # -- payoff -------------------------------------------------------------------------------------------------------
    add(f"{type(d).__name__}.payoff", "payoff", lambda c: d.payoff)
    # -- features -------------------------------------------------------------------------------------------------------
    feats = _features_for(z)
    for label, site, mk in feats:
        for t in TS:
            add(site, f"{label}.get({t})", lambda c, mk=mk, t=t: (lambda f=mk().of(d): f.get(t)), nondet=(label == "empty"))
        add(site, f"{label}[{1}]", lambda c, mk=mk: (lambda f=mk().of(d): f[1]), nondet=(label == "empty"))
    # -- listed price through pricers ---------------------------------------------------------------------------------------------
    prs = dict(W.pricers(z))
    if z.bs_ok:
        prs["black_scholes"] = W.bs_pricer
    for pname, pr in prs.items():
        def listed(c, fn, pr=pr):
            d.list(pr, cost=1 / 128)
            return fn
        add(f"{type(d).__name__}.spot", f"listed[{pname}].spot", lambda c, listed=listed: listed(c, lambda: d.spot))
        for t in TS:
            add("Spot.get", f"listed[{pname}].Spot.get({t})",
                lambda c, listed=listed, t=t: listed(c, lambda: PF.Spot().of(d).get(t)))
            add("Spot(log=True).get", f"listed[{pname}].Spot(log=True).get({t})",
                lambda c, listed=listed, t=t: listed(c, lambda: PF.Spot(log=True).of(d).get(t)))
        for feat_label, mkf in (("spot", lambda: PF.Spot()), ("log_spot", lambda: PF.Spot(log=True))):
            add("Hedger.compute_hedge", f"listed[{pname}].Hedger(Identity,[{feat_label}]).compute_hedge",
                lambda c, listed=listed, mkf=mkf: listed(c, lambda h=nn.Hedger(torch.nn.Identity(), [mkf()]): h.compute_hedge(d)),
                )
    # -- FeatureList / ModuleOutput -----------------------------------------------------------------------------------------------------
    si = _state_independent_inputs(z)
    for t in TS:
        add("FeatureList.get", f"FeatureList.get({t})", lambda c, t=t: (lambda fl=PF.FeatureList(list(si)).of(d): fl.get(t)))
        add("ModuleOutput.get", f"ModuleOutput(Linear).get({t})",
            lambda c, t=t: (lambda mo=PF.ModuleOutput(W.generic_linear(len(si), 2, seed, z.dtype, tag=11), list(si)).of(d):
                            mo.get(t).detach()))
        for flabel, mkf in (("underlier_spot", lambda: PF.UnderlierSpot()), ("underlier_log_spot", lambda: PF.UnderlierSpot(log=True))):
            add("ModuleOutput.get", f"ModuleOutput(Identity,[{flabel}]).get({t})",
                lambda c, t=t, mkf=mkf: (lambda mo=PF.ModuleOutput(torch.nn.Identity(), [mkf()]).of(d): mo.get(t)))
    d2 = z.d2 = getattr(z, "d2", None) or market.derivative(
        z.dkind, z.p2, T=T, **({"strike": 0.0625} if z.dkind == "variance_swap" else
                               {"strike": 1.125, "start": market.DT} if z.dkind == "forward_start" else {"strike": 1.5}))
    # -- access order: one bound object, time steps requested in every order ----------------------------------------------------
    # the request sequence is a de Bruijn word over {None, 0..T-1}: every pair (quick) / triple (thorough) of
    # consecutive requests occurs - descending, skipping, repeated, restarting anywhere, interleaved with get(None);
    # every value must equal the same request on a freshly bound object
    seq = access_sequence([None] + list(range(T)), 2 if tier == "quick" else 3)

    def order_spec(site, label, mk_bound, listed_by=None):
        def prep(c):
            if listed_by is not None:
                d.list(listed_by, cost=1 / 128)

            def thunk():
                f = mk_bound()
                return {f"#{k} get({i})": f.get(i).detach() for k, i in enumerate(seq)}

            def expect():
                fresh = {}
                for i in seq:
                    if i not in fresh:
                        fresh[i] = mk_bound().get(i).detach()
                return {f"#{k} get({i})": fresh[i] for k, i in enumerate(seq)}
            return {"thunk": thunk, "expect": expect, "expect_class": "depends_on_access_order",
                    "expect_msg": "get(i) on one bound object depends on which time steps were requested before "
                                  "(differs from a freshly bound object); first difference: ", "first_diff": True,
                    "no_repeat": True}       # the word itself repeats every request in every context
        add(site, label, prep)

    for label, site, mk in feats:
        if label != "empty":
            order_spec(site, f"order:{label}", lambda mk=mk: mk().of(d))
    for pname in (("buffer", "convex") if rich else ("buffer",)):
        order_spec("Spot.get", f"order:listed[{pname}].Spot", lambda: PF.Spot().of(d), listed_by=W.pricers(z)[pname])
        order_spec("Spot(log=True).get", f"order:listed[{pname}].Spot(log=True)", lambda: PF.Spot(log=True).of(d),
                   listed_by=W.pricers(z)[pname])
    order_spec("FeatureList.get", "order:FeatureList", lambda: PF.FeatureList(list(_state_independent_inputs(z))).of(d))
    order_spec("ModuleOutput.get", "order:ModuleOutput(Linear)",
               lambda: PF.ModuleOutput(W.generic_linear(len(_state_independent_inputs(z)), 2, seed, z.dtype, tag=11),
                                       list(_state_independent_inputs(z))).of(d))
    order_spec("ModuleOutput.get", "order:ModuleOutput(Identity,[Barrier])",
               lambda: PF.ModuleOutput(torch.nn.Identity(), [PF.Barrier(z.K, up=True), PF.Barrier(z.K, up=False)]).of(d))
    # the same through a hedger: get_input(d, i) in every order, on one hedger (a ModuleOutput input binds in place
    # and so carries its bound features from call to call) vs a fresh hedger per request
    for mv in (("linear", "modout", "mlp") if rich else ("modout",)):
        def prep_h(c, mv=mv):
            def hedger():
                sis = list(_state_independent_inputs(z))
                if mv == "modout":
                    mo = PF.ModuleOutput(W.generic_linear(len(sis), 2, seed, z.dtype, tag=14), sis)
                    return nn.Hedger(W.generic_linear(3, 1, seed, z.dtype, tag=15), [mo, "underlier_spot"])
                if mv == "mlp":
                    return nn.Hedger(_fill(nn.MultiLayerPerceptron(len(sis), 1, n_layers=1, n_units=3), seed, z.dtype), sis)
                return nn.Hedger(W.generic_linear(len(sis), 1, seed, z.dtype, tag=12), sis)

            def thunk():
                h = hedger()
                out = {}
                for k, i in enumerate(seq):
                    out[f"#{k} get_input(d,{i})"] = h.get_input(d, i).detach()
                    if k % 5 == 4:
                        h.get_input(d2, 1)               # interleaved with another derivative
                return out

            def expect():
                fresh = {}
                for i in seq:
                    if i not in fresh:
                        fresh[i] = hedger().get_input(d, i).detach()
                return {f"#{k} get_input(d,{i})": fresh[i] for k, i in enumerate(seq)}
            return {"thunk": thunk, "expect": expect, "expect_class": "depends_on_access_order",
                    "expect_msg": "get_input(d, i) on one hedger depends on which time steps were requested before "
                                  "(differs from a fresh hedger with the same parameters); first difference: ",
                    "first_diff": True, "no_repeat": True}
        add("Hedger.get_input", f"order:Hedger[{mv}].get_input", prep_h)
    # -- binding independence ---------------------------------------------------------------------------------------------------------------
    for label, site, mk in feats:
        if label == "empty":
            continue

        def prep(c, mk=mk):
            def thunk():
                f = mk()
                f0 = f.of(d)
                first = f0.get(None)
                f1 = f.of(d2)
                f1.get(1)
                again = f0.get(None)
                return {"first": first, "after_rebinding": again,
                        "unbound_feature_untouched": not hasattr(f, "derivative")}
            def expect():
                r = mk().of(d).get(None)
                return {"first": r, "after_rebinding": r, "unbound_feature_untouched": True}
            return {"thunk": thunk, "expect": expect, "expect_class": "binding_not_independent",
                    "expect_msg": "a feature bound to one derivative changed when the same feature was bound to another"}
        add(site.replace(".get", ".of"), f"binding:{label}", prep)

    def prep_fl(c):
        def thunk():
            fl = PF.FeatureList(list(si))
            f0 = fl.of(d)
            first = f0.get(None)
            fl.of(d2).get(1)
            return {"first": first, "after_rebinding": f0.get(None),
                    "unbound_list_untouched": not any(hasattr(f, "derivative") for f in fl.features)}
        def expect():
            r = PF.FeatureList(list(si)).of(d).get(None)
            return {"first": r, "after_rebinding": r, "unbound_list_untouched": True}
        return {"thunk": thunk, "expect": expect, "expect_class": "binding_not_independent",
                "expect_msg": "a feature list bound to one derivative changed when the list was bound to another"}
    add("FeatureList.of", "binding:FeatureList", prep_fl)
    # -- hedger ----------------------------------------------------------------------------------------------------------------------------------
    hedges = {"default": None, "stock": [p], "two": [p, z.p2], "stock+listed": [p, z.listed], "listed": [z.listed],
              "mixed": [p, z.p3]}     # second hedging instrument declared in the other dtype

    def n_hedges(hv):
        return 1 if hedges[hv] is None else len(hedges[hv])

    def make(mv, H):
        if mv == "identity_spot":
            return torch.nn.Identity(), ["underlier_spot"]
        if mv == "identity_log_spot":
            return torch.nn.Identity(), [PF.UnderlierSpot(log=True)]
        if mv == "identity_moneyness":
            return torch.nn.Identity(), ["moneyness"]
        if mv == "linear":
            return W.generic_linear(len(si), H, seed, z.dtype, tag=12), list(si)
        if mv == "linear_prev":
            return W.generic_linear(len(si) + H, H, seed, z.dtype, tag=13), list(si) + ["prev_hedge"]
        if mv == "modout":
            mo = PF.ModuleOutput(W.generic_linear(len(si), 2, seed, z.dtype, tag=14), list(si))
            return W.generic_linear(2 + 1, H, seed, z.dtype, tag=15), [mo, "underlier_spot"]
        if mv == "mlp":
            return _fill(nn.MultiLayerPerceptron(len(si), H, n_layers=1, n_units=3), seed, z.dtype), list(si)
        if mv == "bs":
            m = nn.BlackScholes(d)
            return m, m.inputs()
        if mv == "ww":
            m = nn.WhalleyWilmott(d)
            return m, m.inputs()
        if mv == "naked":
            return nn.Naked(H), ["zeros"]
        raise KeyError(mv)

    models = ["identity_spot", "identity_log_spot", "linear", "linear_prev", "modout", "mlp", "naked"]
    if z.is_option:
        models.insert(2, "identity_moneyness")
    if z.bs_ok:
        models += ["bs", "ww"]
    for mv in models:
        for hv in hedges:
            if mv.startswith("identity") or mv in ("bs", "ww"):
                if n_hedges(hv) != 1:
                    continue
            if tier == "quick" and hv != "default" and mv not in ("linear", "linear_prev", "identity_log_spot"):
                continue
            if hv == "mixed" and mv not in ("linear", "linear_prev"):
                continue
            if not rich and hv == "mixed" and mv == "linear":
                pass
            elif not rich and (hv not in ("default", "stock+listed") or (hv != "default" and mv != "linear_prev")
                             or mv in ("identity_spot", "identity_moneyness", "mlp", "naked")):
                continue

            def with_hedger(c, fn, mv=mv, hv=hv):
                if hv in ("stock+listed", "listed"):
                    z.listed.list(W.bs_pricer if (z.has_vol and z.kind not in W.RATES) else W.pricers(z)["convex"], cost=1 / 128)
                model, inputs = make(mv, n_hedges(hv))
                h = nn.Hedger(model, inputs)
                return {"thunk": lambda: fn(h, hedges[hv]), "no_grad": True}
            tag = f"Hedger[{mv}|{hv}]"
            if rich or mv in ("identity_log_spot", "modout"):
                add("Hedger.compute_hedge", f"{tag}.compute_hedge",
                    lambda c, w=with_hedger: w(c, lambda h, hl: h.compute_hedge(d, hedge=hl)))
            if rich or mv == "linear":
                add("Hedger.compute_portfolio", f"{tag}.compute_portfolio",
                    lambda c, w=with_hedger: w(c, lambda h, hl: h.compute_portfolio(d, hedge=hl)))
            add("Hedger.compute_pl", f"{tag}.compute_pl",
                lambda c, w=with_hedger: w(c, lambda h, hl: h.compute_pl(d, hedge=hl)))
            if mv not in ("linear_prev", "ww") and hv == "default" and (rich or mv == "linear"):
                for t in (None, 1):
                    add("Hedger.get_input", f"{tag}.get_input({t})",
                        lambda c, w=with_hedger, t=t: w(c, lambda h, hl: h.get_input(d, t)))
    # -- compute_loss / price / fit on a scripted simulate, per criterion ---------------------------------------------------------------------------------
    crits = [("EntropicRiskMeasure", lambda: nn.EntropicRiskMeasure(2.0)), ("EntropicLoss", lambda: nn.EntropicLoss(1.5)),
             ("ExpectedShortfall", lambda: nn.ExpectedShortfall(0.5)), ("QuadraticCVaR", lambda: nn.QuadraticCVaR(2.0)),
             ("OCE", lambda: _oce())]
    for cname, mkc in crits:
        for hv in ("default", "two"):
            if tier == "quick" and hv != "default" and cname != "EntropicRiskMeasure":
                continue
            if not rich and (hv != "default" or cname != "EntropicRiskMeasure"):
                continue
            for meth in ("compute_loss", "price", "fit"):
                if meth == "fit" and (cname not in ("EntropicRiskMeasure", "ExpectedShortfall") or not rich):
                    continue
                if meth == "fit" and tier == "quick" and (cname != "EntropicRiskMeasure" or hv != "default"):
                    continue
                if meth == "price" and cname in DEFAULT_CASH and z.dtype != torch.float64:
                    continue

                def prep(c, mkc=mkc, hv=hv, meth=meth):
                    sim = market.ScriptedSimulate(p, [z.script], cycle=True)
                    H = n_hedges(hv)
                    h = nn.Hedger(W.generic_linear(len(si) + H, H, seed, z.dtype, tag=16), list(si) + ["prev_hedge"],
                                  criterion=mkc())
                    if meth == "compute_loss":
                        fn = lambda: h.compute_loss(d, hedge=hedges[hv], n_paths=z.N, n_times=2).detach()  # noqa: E731
                    elif meth == "price":
                        fn = lambda: h.price(d, hedge=hedges[hv], n_paths=z.N)  # noqa: E731
                    else:
                        def fn():
                            hh = nn.Hedger(W.generic_linear(len(si) + H, H, seed, z.dtype, tag=16),
                                           list(si) + ["prev_hedge"], criterion=mkc())
                            hist = hh.fit(d, hedge=hedges[hv], n_epochs=2, n_paths=z.N, n_times=2, verbose=False)
                            return {"history": hist, "weight": hh.model.weight.detach().clone()}
                    return {"thunk": fn, "cleanup": sim.remove}
                add(f"Hedger.{meth}", f"Hedger[{cname}|{hv}].{meth}", prep, sim=True)
        # criterion and cash on the hedger's own portfolio / payoff tensors handed over as caller tensors
        def prep_crit(c, mkc=mkc, cash=False):
            h = nn.Hedger(W.generic_linear(len(si), 1, seed, z.dtype, tag=12), list(si))
            with torch.no_grad():
                pf = c.mk("portfolio", h.compute_portfolio(d))
                po = c.mk("payoff", d.payoff())
            crit = mkc()
            return (lambda: crit.cash(pf, po)) if cash else (lambda: crit(pf, po))
        add(f"{cname}.forward", f"{cname}(portfolio,payoff)", lambda c, f=prep_crit: f(c))
        if cname not in DEFAULT_CASH or z.dtype == torch.float64:
            add(f"{cname}.cash", f"{cname}.cash(portfolio,payoff)", lambda c, f=prep_crit: f(c, cash=True))
    # -- tensor-valued init_state, reused across calls (real simulators, torch RNG seeded per call) ---------------------------------
    def init_tensors(c):
        return tuple(c.mk(f"init_state[{k}]", float(v) * 1.0625) for k, v in enumerate(p.default_init_state))

    def buffers_of(prim):
        return {n: b.detach().clone() for n, b in prim.named_buffers()}

    def real(fn):
        def thunk():
            torch.manual_seed(20261004)
            return fn()
        return thunk

    pname = type(p).__name__
    def prep_sim(c, through_derivative):
        ts = init_tensors(c)
        if through_derivative:
            return real(lambda: (d.simulate(n_paths=4, init_state=ts), buffers_of(p))[1])
        return real(lambda: (p.simulate(n_paths=4, time_horizon=d.maturity, init_state=ts), buffers_of(p))[1])
    add(f"{pname}.simulate", "simulate(init_state tensors)", lambda c: prep_sim(c, False), sim="real")
    add(f"{type(d).__name__}.simulate", "derivative.simulate(init_state tensors)", lambda c: prep_sim(c, True), sim="real")
    for meth in ("compute_loss", "price", "compute_pnl", "fit"):
        if meth in ("compute_pnl", "fit") and not rich:
            continue

        def prep_init(c, meth=meth):
            ts = init_tensors(c)
            h = nn.Hedger(W.generic_linear(len(si) + 1, 1, seed, z.dtype, tag=16), list(si) + ["prev_hedge"],
                          criterion=nn.EntropicRiskMeasure(2.0))

            def run():
                if meth == "fit":
                    hh = nn.Hedger(W.generic_linear(len(si) + 1, 1, seed, z.dtype, tag=16), list(si) + ["prev_hedge"],
                                   criterion=nn.EntropicRiskMeasure(2.0))
                    return {"history": hh.fit(d, n_epochs=2, n_paths=4, init_state=ts, verbose=False),
                            "weight": hh.model.weight.detach().clone()}
                out = getattr(h, meth)(d, n_paths=4, init_state=ts)
                return out.detach()
            return real(run)
        add(f"Hedger.{meth}", f"Hedger.{meth}(init_state tensors)", prep_init, sim="real")
    # -- functional pl on the series themselves ------------------------------------------------------------------------------------------------------------------------
    def prep_pl(c):
        unit = c.mk("unit", (torch.arange(z.N * 2 * T, dtype=torch.float64).reshape(z.N, 2, T) % 5 - 2) / 4)
        return lambda: F.pl(torch.stack([p.spot, z.p2.spot], dim=1), unit, cost=[p.cost, z.p2.cost], payoff=d.payoff())
    add("functional.pl", "pl(stack of series)", prep_pl)
    add("functional.realized_variance", "realized_variance(series)", lambda c: (lambda: F.realized_variance(p.spot, dt=p.dt)))
    add("functional.realized_volatility", "realized_volatility(series)", lambda c: (lambda: F.realized_volatility(p.spot, dt=p.dt)))
    for name in ("european_payoff", "lookback_payoff", "american_binary_payoff", "european_binary_payoff"):
        add(f"functional.{name}", f"{name}(series)", lambda c, name=name: (lambda: getattr(F, name)(p.spot, strike=z.K)))
    add("functional.european_forward_start_payoff", "european_forward_start_payoff(series)",
        lambda c: (lambda: F.european_forward_start_payoff(p.spot, strike=1.125, start_index=1)))
    # -- Black-Scholes modules on the derivative --------------------------------------------------------------------------------------------------------------------------------
    if z.bs_ok:
        cls = type(nn.BlackScholes(d)).__name__
        names = nn.BlackScholes(d).inputs()
        getter = {"log_moneyness": d.log_moneyness, "max_log_moneyness": getattr(d, "max_log_moneyness", None),
                  "time_to_maturity": d.time_to_maturity, "volatility": lambda: p.volatility}
        for meth in ("price", "delta", "gamma", "vega", "theta"):
            add(f"{cls}.{meth}", f"BlackScholes(d).{meth}()", lambda c, meth=meth: getattr(nn.BlackScholes(d), meth))

            def prep(c, meth=meth):
                kw = {n: c.mk(n, getter[n]()[:, :-1]) for n in names}        # explicit tensors, before maturity
                m = nn.BlackScholes(d)
                return lambda: getattr(m, meth)(**kw)
            add(f"{cls}.{meth}", f"BlackScholes(d).{meth}(explicit)", prep)
            for part in names:
                def prep_part(c, meth=meth, part=part):
                    kw = {part: c.mk(part, getter[part]())}            # one explicit tensor, the rest from the buffers
                    m = nn.BlackScholes(d)
                    return lambda: getattr(m, meth)(**kw)
                if tier != "quick" or (rich and part in ("volatility", "log_moneyness")):
                    add(f"{cls}.{meth}", f"BlackScholes(d).{meth}({part} explicit)", prep_part)

        def prep_fwd(c, ww=False):
            m = nn.WhalleyWilmott(d) if ww else nn.BlackScholes(d)
            cols = [getter[n]()[:, :-1].unsqueeze(-1) for n in names]
            if ww:
                cols.append(torch.full_like(cols[0], 0.375))
            x = c.mk("input", torch.cat(cols, dim=-1))
            return {"thunk": lambda: m(x), "no_grad": True}
        add(f"{cls}.forward", "BlackScholes(d).forward(input)", lambda c: prep_fwd(c))
        add("WhalleyWilmott.forward", "WhalleyWilmott(d).forward(input)", lambda c: prep_fwd(c, ww=True))

        def prep_width(c):
            m = nn.WhalleyWilmott(d)
            x = c.mk("input", torch.cat([getter[n]()[:, :-1].unsqueeze(-1) for n in names], dim=-1))
            return {"thunk": lambda: m.width(x), "no_grad": True}
        add("WhalleyWilmott.width", "WhalleyWilmott(d).width(input)", prep_width)

        def prep_iv(c):
            m = nn.BlackScholes(d)
            with torch.no_grad():
                price = c.mk("price", m.price() * 1.0)
            return lambda: m.implied_volatility(price=price, precision=1e-3)
        add(f"{cls}.implied_volatility", "BlackScholes(d).implied_volatility(price)", prep_iv)

        # autogreek handed the series themselves
        def price_spot(spot, volatility, time_to_maturity):
            return F.bs_european_price((spot / z.K).log(), time_to_maturity, volatility, strike=z.K)
        for g in ("delta", "gamma", "vega", "theta"):
            add(f"autogreek.{g}", f"autogreek.{g}(series)",
                lambda c, g=g: (lambda: getattr(autogreek, g)(price_spot, spot=p.spot, volatility=p.volatility,
                                                             time_to_maturity=d.time_to_maturity() + 0.125)))
    return calls


@family
def instrument_calls(ctx, block):
    z = Zoo(block)
    base = {k: v for k, v in block.items() if k != "only"}
    calls = zoo_calls(z, ctx.seed % 5, ctx.tier)
    _unique_labels(calls)
    calls = _selected(calls, block)
    for spec in calls:
        _run_call(ctx, spec, base, z.dtype, block.get("form", "leaf"), zoo=z)
    if "only" not in block:
        ctx.add("worlds", 1)
        if len(ctx.samples) < 2:
            ctx.sample({"family": "instrument_calls", "world": base, "paths": z.N, "calls": len(calls),
                        "first_labels": [s["label"] for s in calls[:8]]})


@family
def instrument_worlds(ctx, block):
    """Several worlds of the call matrix in one task (parallel scheduling unit)."""
    for b in block["worlds"]:
        instrument_calls(ctx, b)


# ----------------------------------------------------------------------------
# family 3: operation histories (bfs)
# ----------------------------------------------------------------------------

class _Observer:
    """Checks one transition: frame rule on the series, parameter frame, two differential oracles."""

    def __init__(self, ctx, variant, seed):
        self.ctx, self.variant, self.seed = ctx, variant, seed
        self.memo = {}

    def block(self, hist, op):
        return {"variant": self.variant, "history": [list(o) for o in hist] + [list(op)]}

    def transition(self, hist, op, before, after=None):
        ctx = self.ctx
        op = tuple(op)
        site = W.ENTRY[op[0]]
        blk = self.block(hist, op)
        pre = W.snap_prims(before.prims)
        if after is None:
            after = W.build(self.variant, self.seed, list(hist) + [op])
        live = after
        s0, s1, out_live = after.pre, after.post, after.last
        # the replay is deterministic: the live world before its last operation == `before`
        if W.diff_prims(_no_ptr(pre), _no_ptr(s0)):
            from mc.core.runner import HarnessError
            raise HarnessError(f"replaying {hist} twice gives different series")
        # ambient state: grad mode and default dtype are as before whatever the operation did (raising or not);
        # the training flag changes only as documented (eval -> off, train -> on, fit with validation -> off)
        g0, d0, t0 = after.ambient_pre
        g1, d1, t1 = after.ambient_post
        want_t = {"eval": False, "train": True, "fit": False}.get(op[0], t0)
        if after.failed and op[0] == "fit":
            want_t = t1
        for name, got, want in (("grad_mode", g1, g0), ("default_dtype", d1, d0), ("training_flag", t1, want_t)):
            if got != want:
                ctx.violation(site, f"ambient_state_changed:{name}",
                              f"history {_fmt(hist)} then {_fmt([op])} (result: {W.describe(out_live) if not isinstance(out_live, str) else out_live[:80]}): "
                              f"{name} is {got} afterwards, expected {want} [variant {self.variant}]",
                              observed=got, expected=want, block=blk)
        if isinstance(out_live, W.Raised) and after.failed:
            proj = W.build(self.variant, self.seed, W.data_projection(hist))
            if op[0] == "chedge":
                proj.adopt(W._Donor(after, state=after.pre_copy_state))
                ref = W.safe_apply(proj, ("hedge", op[1]))
            else:
                proj.adopt(W._Donor(after, state=after.pre_state))
                ref = W.safe_apply(proj, op) if op[0] != "copy" else None
            fresh_too = isinstance(ref, W.Raised)
            ctx.tick(1)
            ctx.violation(site, ("raises:" if fresh_too else "history_dependent:raises:") + str(out_live).split(":")[0],
                          f"after {_fmt(hist)} the operation {_fmt([op])} raises {out_live}"
                          + (" (so does a fresh hedger on the current series)" if fresh_too else
                             " while a fresh hedger with the same parameters on the current series returns a value")
                          + f" [variant {self.variant}]", observed=str(out_live), expected=W.describe(ref), block=blk)
            return
        # (1) frame rule on the simulated series of all three derivatives
        allowed = W.may_change(op)
        for (i, name), kind in W.diff_prims(s0, s1):
            if i == allowed:
                continue
            ctx.violation(site, f"mutates_buffer:{name}:{kind}",
                          f"history {_fmt(hist)} then {_fmt([op])}: series '{name}' of derivative #{i} "
                          f"({W.DERIVS[i][0]}) changed ({kind}) [hedger variant {self.variant}]",
                          observed=W.describe(s1[0][(i, name)][0]) if (i, name) in s1[0] else None,
                          expected=W.describe(s0[0][(i, name)][0]) if (i, name) in s0[0] else None, block=blk)
        for key, state in W.dirty_autograd(s1):
            ctx.violation(site, f"autograd_state_changed:{key[1]}",
                          f"history {_fmt(hist)} then {_fmt([op])}: series '{key[1]}' of derivative #{key[0]} now has "
                          f"(requires_grad, is_leaf, grad_fn) = {state} [variant {self.variant}]",
                          observed=list(state), expected=[False, True, False], block=blk)
        # the two hedger objects (original and its deep copy) do not share state: operations on one leave the
        # buffers (prev_output) and parameters of the other untouched
        on_copy = op[0] == "chedge"
        other, label = (0, "original hedger") if (on_copy or op[0] == "copy") else (1, "deep copy of the hedger")
        for other, label in ([(0, "original hedger"), (1, "deep copy of the hedger")] if op[0] in ("sim", "dto")
                             else [(other, label)]):
            if not W.same_module_buffers(after.pre_hb[other], after.post_hb[other]):
                ctx.violation(site, "clobbers_other_hedger" if not on_copy else "copied_hedger:clobbers_original",
                              f"history {_fmt(hist)} then {_fmt([op])}: the buffers (prev_output) of the {label} changed "
                              f"[variant {self.variant}]",
                              observed={n: W.describe(v[0]) for n, v in (after.post_hb[other] or {}).items()},
                              expected={n: W.describe(v[0]) for n, v in (after.pre_hb[other] or {}).items()}, block=blk)
        if op[0] != "copy" and after.pre_copy_state is not None:
            cs = after.copy_state()
            for grp in after.pre_copy_state:
                for k, v in after.pre_copy_state[grp].items():
                    if not W.same_tensor(v, cs[grp][k]):
                        ctx.violation(site, "parameters_changed:copy",
                                      f"history {_fmt(hist)} then {_fmt([op])}: parameter {grp}.{k} of the deep copy changed",
                                      observed=W.describe(cs[grp][k]), expected=W.describe(v), block=blk)
        if op[0] == "copy":
            cs, st = after.copy_state(), after.state()
            same = sorted(cs) == sorted(st) and all(W.same_result(cs[g], st[g]) for g in st)
            if not same or not _same_values(W.snap_module_buffers(after.copy), after.post_hb[0]):
                ctx.violation(site, "copy_differs_from_original",
                              f"history {_fmt(hist)} then copy.deepcopy(hedger): parameters/buffers of the copy differ "
                              f"from the original's [variant {self.variant}]", block=blk)
        if allowed is not None:
            p = live.prims[allowed]
            if op[0] == "dto":
                want = {n: v[0].to(DT[op[2]]) for (i, n), v in s0[0].items() if i == allowed}
            else:
                kind, _, _, T = W.DERIVS[allowed]
                want = {n: t.to(p.dtype) for n, t in W.script_for(kind, T)(op[2], (T - 1) * W.H_DT, None).items()}
            got = {n: b for n, b in p.named_buffers()}
            if sorted(got) != sorted(want) or not all(W.same_tensor(got[n].detach(), want[n]) for n in want):
                ctx.violation(site, "simulated_series_altered",
                              f"history {_fmt(hist)} then {_fmt([op])}: the series of derivative #{allowed} are not what "
                              f"{'the cast' if op[0] == 'dto' else 'simulate()'} delivered [variant {self.variant}]",
                              observed={n: W.describe(b) for n, b in got.items()},
                              expected={n: W.describe(b) for n, b in want.items()}, block=blk)
        # (2) parameter frame: only fit changes parameter values, only hedger.to their dtype
        if op[0] != "fit":
            st0, st1 = after.pre_state, live.state()
            for grp in st0:
                for k, v in st0[grp].items():
                    w = v.to(DT[op[1]]) if op[0] == "hto" else v
                    if not W.same_tensor(w, st1[grp][k]):
                        ctx.violation(site, "parameters_changed",
                                      f"history {_fmt(hist)} then {_fmt([op])}: parameter {grp}.{k} changed",
                                      observed=W.describe(st1[grp][k]), expected=W.describe(w), block=blk)
        query = op[0] in ("hedge", "pl", "input", "loss", "price", "fit", "backward", "chedge", "badprice", "badloss", "badpl")
        # an evaluation of the deep copy is compared with the same evaluation by a fresh hedger holding the copy's parameters
        ref_op = ("hedge", op[1]) if on_copy else op
        donor_state = after.pre_copy_state if on_copy else after.pre_state
        tag = "copied_hedger:" if on_copy else ""
        ctx.tick(1, nontrivial=1 if (query and W.depends_on_data(out_live)) else 0)
        ctx.add("traces_validated_against_impl", 1)
        if not query:
            return
        # (3a) differential: a fresh hedger (same factory, same parameters via load_state_dict) on the live
        # instruments.  It is run in the world of the live hedger right after its operation: by the frame rule
        # checked above the series are what they were before (a simulating operation re-delivers the same script),
        # the parameters handed over are the ones the live hedger had before the operation.
        keep = (after.hedger, after.aux, after.last, after.post, after.failed, len(after.trace), after.access)
        after.hedger, after.aux = W.make_hedger(self.variant, after.derivs, self.seed)
        after.adopt(W._Donor(after, state=donor_state))
        ref_a = W.safe_apply(after, ref_op)
        after.hedger, after.aux, after.last, after.post, after.failed = keep[:5]
        del after.trace[keep[5]:]
        after.access = keep[6]
        rt = W.raised_type(out_live)
        if rt and not W.raised_type(ref_a):
            ctx.violation(site, tag + f"history_dependent:raises:{rt}",
                          f"after {_fmt(hist)} the operation {_fmt([op])} raises ({W.describe(out_live)}) while a fresh hedger "
                          f"holding the same parameters on the same instruments returns a value [variant {self.variant}]",
                          observed=W.describe(out_live), expected=W.describe(ref_a), block=blk)
        elif not W.same_result(out_live, ref_a):
            ctx.violation(site, tag + "history_dependent:vs_fresh_hedger",
                          f"after {_fmt(hist)} the result of {_fmt([op])} differs from a fresh hedger holding the same "
                          f"parameters on the same instruments [variant {self.variant}]",
                          observed=W.describe(out_live), expected=W.describe(ref_a), block=blk)
        # (3b) differential: fresh hedger in the world where only the data-changing operations happened
        # (the reference world is built from scratch from (projection, parameters, operation) only, so its result
        # is a function of that key and is computed once per key)
        pkey = (tuple(W.data_projection(hist)), ref_op, _fingerprint(donor_state))
        if pkey not in self.memo:
            proj = W.build(self.variant, self.seed, W.data_projection(hist))
            proj.adopt(W._Donor(after, state=donor_state))
            self.memo[pkey] = W.safe_apply(proj, ref_op)
            ctx.add("reference_worlds_built", 1)
        ref_b = self.memo[pkey]
        if rt and not W.raised_type(ref_b):
            ctx.violation(site, tag + f"history_dependent:raises:{rt}",
                          f"after {_fmt(hist)} the operation {_fmt([op])} raises ({W.describe(out_live)}) while a fresh hedger with "
                          f"the same parameters on the derivative's current series returns a value [variant {self.variant}]",
                          observed=W.describe(out_live), expected=W.describe(ref_b), block=blk)
        elif not W.same_result(out_live, ref_b):
            ctx.violation(site, tag + "history_dependent:vs_current_data",
                          f"after {_fmt(hist)} the result of {_fmt([op])} differs from a fresh hedger with the same "
                          f"parameters on the derivative's current series (only simulate/to replayed: "
                          f"{_fmt(W.data_projection(hist))}) [variant {self.variant}]",
                          observed=W.describe(out_live), expected=W.describe(ref_b), block=blk)
        # (3c) the same reference under the *other* ambient default dtype: observations on float32/float64 series
        # do not depend on torch.get_default_dtype()
        other = "float64" if after.ambient_pre[1] == "float32" else "float32"
        ckey = pkey + (other,)
        if ckey not in self.memo:
            proj = W.build(self.variant, self.seed, W.data_projection(hist))
            proj.adopt(W._Donor(after, state=donor_state))
            self.memo[ckey] = W.safe_apply(proj, ref_op, ambient=other)
        ref_c = self.memo[ckey]
        if not W.same_result(ref_b, ref_c):       # (a history dependence of the live result is reported by 3a/3b)
            ctx.violation(site, tag + "depends_on_default_dtype",
                          f"after {_fmt(hist)}: the result of {_fmt([ref_op])} by a fresh hedger on the current series under "
                          f"torch default dtype {other} differs from the same under the other default "
                          f"[variant {self.variant}]",
                          observed=W.describe(ref_c), expected=W.describe(ref_b), block=blk)
        ctx.add("differential_comparisons", 3)
        if isinstance(out_live, torch.Tensor) and out_live.numel():
            ctx.outcome((self.variant, op[0], round(float(out_live.detach().to(torch.float64).nan_to_num(nan=-1.0).sum()), 9)))


def _same_values(a, b):
    return sorted(a) == sorted(b) and all(W.same_tensor(a[n][0], b[n][0]) for n in a)


def _fingerprint(state):
    return tuple((g, k, str(v.dtype), tuple(v.flatten().tolist())) for g in sorted(state) for k, v in state[g].items())


def _no_ptr(s):
    return ({k: (v[0], v[1], v[2], 0) for k, v in s[0].items()}, s[1])


def _fmt(hist):
    return "[" + ", ".join(f"{o[0]}({','.join(str(a) for a in o[1:])})" for o in hist) + "]"


PRESIM = [("sim", 0, 2), ("sim", 1, 3), ("sim", 2, 2)]


@family
def histories(ctx, block):
    variant = block["variant"]
    seed = ctx.seed % 5
    obs = _Observer(ctx, variant, seed)
    if "history" in block:                       # replay of one transition
        hist = [tuple(o) for o in block["history"]]
        before = W.build(variant, seed, hist[:-1])
        if before.enabled(hist[-1]):
            obs.transition(hist[:-1], hist[-1], before)
        return
    ops = W.operations(variant, block.get("ops", "thorough"))
    init = [tuple(o) for o in block["init"]]
    # bfs rebuilds the world before every operation; a world on which no operation was run since it was
    # built (the operation was not enabled) is handed out again instead of being rebuilt
    cache = {}                                   # history -> world, two most recently used

    def build(h):
        key = tuple(h)
        w = cache.pop(key, None)
        if w is None or w.dirty:
            w = W.build(variant, seed, h)
            w.dirty = False
        cache[key] = w                            # most recent last
        while len(cache) > 2:
            cache.pop(next(iter(cache)))
        return w

    def on_transition(h, op, before, after):
        after.dirty = True                       # `before` is only read
        obs.transition(h, op, before, after)

    res = bfs([init], ops, build=build, canon=lambda w: w.canon(), on_transition=on_transition,
              enabled=lambda w, op: w.enabled(op), max_depth=len(init) + block["depth"])
    ctx.add("states", res.states)
    ctx.add("transitions", res.transitions)
    if len(ctx.samples) < 6:
        deepest = max(res.seen.values(), key=len)
        ctx.sample({"family": "histories", "variant": variant, "init": _fmt(init), "depth": block["depth"],
                    "abstract_states": res.states, "transitions": res.transitions,
                    "a_deepest_history": _fmt(deepest)})


# ----------------------------------------------------------------------------
# family 4: one feature OBJECT shared by two hedgers / re-bound through of() several times
# ----------------------------------------------------------------------------
# "... not on which derivatives, path counts or dtypes the same hedger or FEATURES were used with before":
# a feature object (PrevHedge instance, FeatureList or ModuleOutput holding a state-dependent inner feature, nested
# ModuleOutput) is put into the inputs of two hedgers A and B (different model weights, so their prev_output differ)
# and the hedgers use it one after the other on three derivatives (the world of the histories: path counts, dtypes,
# lengths differ; one derivative hedged with a listed option); the LAST use of every sequence is compared, bitwise,
# with the same use in a fresh world (fresh instruments with the same scripted series, fresh feature object and
# fresh hedger from the same factories).  The same for the bare feature API: F.of(d1, h1).of(d2, h2)... (h = None | A
# | B) and then get(t) / is_state_dependent() against a fresh feature object bound once.

SHARED_KINDS = ("prev_instance", "flist_prev", "modout_prev", "modout_flist", "modout_nested")
SHARED_OPS = ("hedge", "pl", "loss")
SHARED_PATHS = ((2, 3, 2), (3, 2, 2))        # derivatives 0 and 2 (same dtype, same length): same | different path counts


def _shared_feature(kind, seed):
    """-> (feature object, number of columns, modules to cast along with the hedger)."""
    from pfhedge.features import FeatureList, ModuleOutput, PrevHedge
    f32 = torch.float32
    if kind == "prev_instance":
        return PrevHedge(), 1, []
    if kind == "flist_prev":
        return FeatureList(["log_moneyness", PrevHedge()]), 2, []
    if kind == "modout_prev":
        mo = ModuleOutput(W.generic_linear(2, 1, seed, f32, tag=21), ["log_moneyness", "prev_hedge"])
        return mo, 1, [mo]
    if kind == "modout_flist":
        mo = ModuleOutput(W.generic_linear(3, 1, seed, f32, tag=22), [FeatureList(["moneyness", PrevHedge()]), "time_to_maturity"])
        return mo, 1, [mo]
    if kind == "modout_nested":
        inner = ModuleOutput(W.generic_linear(2, 1, seed, f32, tag=23), ["prev_hedge", "moneyness"])
        outer = ModuleOutput(W.generic_linear(2, 1, seed, f32, tag=24), [inner, "time_to_maturity"])
        return outer, 1, [outer, inner]
    raise KeyError(kind)


class _SharedWorld:
    """Three simulated derivatives (the world of the histories), one feature object, two hedgers holding it."""

    def __init__(self, kind, seed, paths):
        self.w = W.build("prev", seed, [("sim", i, n) for i, n in enumerate(paths)])
        self.paths = paths
        self.feature, ncol, self.mods = _shared_feature(kind, seed)
        self.ncol = ncol
        self._hedgers = self._plain = None

    @property
    def hedgers(self):
        from pfhedge.nn import ExpectedShortfall, Hedger
        if self._hedgers is None:
            self._hedgers = [Hedger(W.generic_linear(1 + self.ncol, 1, self.w.seed, torch.float32, tag=30 + h),
                                    ["time_to_maturity", self.feature], criterion=ExpectedShortfall(0.5)) for h in (0, 1)]
        return self._hedgers

    @property
    def plain(self):
        # hedgers of the bare-API part: ordinary string inputs (their prev_output is what a bound prev_hedge reads)
        from pfhedge.nn import ExpectedShortfall, Hedger
        if self._plain is None:
            self._plain = [Hedger(W.generic_linear(2, 1, self.w.seed, torch.float32, tag=40 + h), ["moneyness", "prev_hedge"],
                                  criterion=ExpectedShortfall(0.5)) for h in (0, 1)]
        return self._plain

    def cast(self, i, hedger):
        dt = self.w.prims[i].dtype
        hedger.to(dt)
        for m in self.mods:          # a ModuleOutput is not in the hedger's module tree: harness obligation
            m.to(dt)

    def use(self, h, i, op):
        from mc.core.runner import blame
        H, d, hedge = self.hedgers[h], self.w.derivs[i], self.w.hedges[i]
        self.cast(i, H)
        g0 = torch.is_grad_enabled()
        try:
            if op == "hedge":
                with torch.no_grad():
                    return H.compute_hedge(d, hedge=hedge)
            if op == "pl":
                with torch.no_grad():
                    return H.compute_pl(d, hedge=hedge)
            loss = H.compute_loss(d, hedge=hedge, n_paths=self.paths[i])
            params = list(H.parameters()) + [q for m in self.mods for q in m.module.parameters()]
            grads = torch.autograd.grad(loss, params, allow_unused=True)
            return {"loss": loss.detach(), "grad": [None if g is None else g.detach() for g in grads]}
        except Exception as e:
            if blame(e) is None and not isinstance(e, RuntimeError):
                raise
            return W.Raised(f"{type(e).__name__}: {str(e)[:160]}")
        finally:
            torch.set_grad_enabled(g0)

    def bind(self, chain, steps):
        """F.of(d_i1, h1).of(d_i2, h2)...; then is_state_dependent() and get(t) for t in steps."""
        from mc.core.runner import blame
        last_of = {}
        for h, i in chain:
            if h is not None:
                last_of[h] = i
        for h, i in last_of.items():         # gives each hedger a prev_output with the path count of its last binding
            self.plain[h].to(self.w.prims[i].dtype)
            with torch.no_grad():
                self.plain[h].compute_hedge(self.w.derivs[i], hedge=self.w.hedges[i])
        f = self.feature
        out = {}
        try:
            for h, i in chain:
                f = f.of(self.w.derivs[i], None if h is None else self.plain[h])
            out["state_dependent"] = bool(f.is_state_dependent())
        except Exception as e:
            if blame(e) is None:
                raise
            return {"of": W.Raised(f"{type(e).__name__}: {str(e)[:120]}")}
        for m in self.mods:
            m.to(self.w.prims[chain[-1][1]].dtype)
        for t in steps:
            try:
                with torch.no_grad():
                    out[f"get({t})"] = f.get(t)
            except Exception as e:            # e.g. prev_hedge without a hedger: the type of the exception is the outcome
                if blame(e) is None and not isinstance(e, (AttributeError, RuntimeError)):
                    raise
                out[f"get({t})"] = W.Raised(type(e).__name__)
        return out


def _fmt_uses(uses):
    return "[" + ", ".join(f"hedger {'AB'[h]}.{op}(derivative #{i})" for h, i, op in uses) + "]"


def _fmt_chain(chain):
    return "F" + "".join(f".of(d{i}{'' if h is None else ', ' + 'AB'[h]})" for h, i in chain)


@family
def shared_feature_objects(ctx, block):
    kind, seed = block["kind"], ctx.seed % 5
    paths = tuple(block["paths"])
    memo = {}
    if "uses" in block:
        use_seqs = [[tuple(u) for u in block["uses"]]]
    elif "chain" in block:
        use_seqs = []
    else:
        singles = [(h, i, op) for h in (0, 1) for i in range(len(W.DERIVS)) for op in SHARED_OPS]
        earlier = [u for u in singles if u[2] in block["earlier_ops"]]
        use_seqs = [[u] for u in singles]
        front = [[u] for u in earlier]
        for _ in range(block["length"] - 1):
            use_seqs += [f + [u] for f in front for u in singles]
            front = [f + [u] for f in front for u in earlier]
    for uses in use_seqs:
        sw = _SharedWorld(kind, seed, paths)
        got = None
        for u in uses:
            got = sw.use(*u)
        last = uses[-1]
        if last not in memo:
            memo[last] = _SharedWorld(kind, seed, paths).use(*last)
            ctx.add("reference_worlds_built", 1)
        want = memo[last]
        users = {h for h, _, _ in uses}
        ctx.tick(1, nontrivial=1 if (len(users) > 1 and W.depends_on_data(got)) else 0)
        ctx.add("differential_comparisons", 1)
        if not W.same_result(got, want):
            rt = W.raised_type(got)
            other = any(h != last[0] for h, _, _ in uses[:-1])
            cls = ("shared_feature:" + ("raises:" + rt if rt else "history_dependent")
                   + (":used_by_other_hedger_before" if other else ":used_by_same_hedger_before"))
            ctx.violation(W.ENTRY[last[2]], cls,
                          f"feature object '{kind}' in the inputs of two hedgers A, B; after {_fmt_uses(uses[:-1])} the result "
                          f"of {_fmt_uses([last])} differs from the same in a fresh world (fresh feature object, fresh "
                          f"hedger, same parameters, same series; path counts {list(paths)})",
                          observed=W.describe(got), expected=W.describe(want),
                          block={"kind": kind, "paths": list(paths), "uses": [list(u) for u in uses]})
        elif isinstance(got, torch.Tensor):
            ctx.outcome(("shared", kind, last[2], round(float(got.detach().to(torch.float64).sum()), 9)))
    # -- bare feature API: chains of of() -----------------------------------------------------------------------------
    if "uses" in block:
        return
    if "chain" in block:
        chains = [[tuple(b) for b in block["chain"]]]
    else:
        binds = [(h, i) for h in (None, 0, 1) for i in range(len(W.DERIVS))]
        chains, front = [], [[b] for b in binds]
        for _ in range(block["chain_length"] - 1):
            front = [f + [b] for f in front for b in binds]
            chains += front
    steps = (0, 1)
    for chain in chains:
        got = _SharedWorld(kind, seed, paths).bind(chain, steps)
        # reference: a fresh feature object bound once in a fresh world (bind() prepares the state of the hedger it binds
        # with exactly as above: compute_hedge on the derivative of its last binding) - a function of the last binding
        if chain[-1] not in memo:
            memo[chain[-1]] = _SharedWorld(kind, seed, paths).bind(chain[-1:], steps)
            ctx.add("reference_worlds_built", 1)
        want = memo[chain[-1]]
        hs = [h for h, _ in chain]
        ctx.tick(1, nontrivial=1 if (len(set(hs)) > 1 and W.depends_on_data([v for v in got.values() if not isinstance(v, (str, bool))])) else 0)
        ctx.add("differential_comparisons", 1)
        for key in want:
            g, x = got.get(key), want[key]
            same = (W.raised_type(g) == W.raised_type(x)) if (W.raised_type(g) or W.raised_type(x)) else W.same_result(g, x)
            if not same:
                prev_h = [h for h in hs[:-1] if h is not None]
                cls = ("rebinding:" + key.split("(")[0] + ":"
                       + ("to_no_hedger_after_hedger" if hs[-1] is None else
                          "to_other_hedger" if any(h != hs[-1] for h in prev_h) else
                          "to_same_hedger" if prev_h else "after_no_hedger"))
                ctx.violation("Feature.of", cls,
                              f"{_fmt_chain(chain)}.{key} differs from a fresh '{kind}' feature object bound once, "
                              f"{_fmt_chain(chain[-1:])}.{key} (path counts {list(paths)}; A, B: hedgers after compute_hedge on the "
                              f"derivative they are bound with)",
                              observed=W.describe(g), expected=W.describe(x),
                              block={"kind": kind, "paths": list(paths), "chain": [list(b) for b in chain]})
                break
    if "chain" not in block and len(ctx.samples) < 8:
        ctx.sample({"family": "shared_feature_objects", "kind": kind, "paths": list(paths), "use_sequences": len(use_seqs),
                    "of_chains": len(chains), "a_use_sequence": _fmt_uses(use_seqs[-1]), "a_chain": _fmt_chain(chains[-1])})


# ----------------------------------------------------------------------------

def run(ctx):
    ctx.rule("call matrix: every (call, world) pair - calls = the public computations listed in the module docstring, "
             "worlds = primary type x derivative type (x dtype) holding all joint paths over the alphabets, pure "
             "functions x dtype x {leaf, view-into-base} argument form; every instrument buffer and caller tensor is "
             "compared bitwise (values, dtype, shape, storage) before/after, each call is made twice; bound features, lists, "
             "ModuleOutputs and hedgers are asked for time steps along a de Bruijn word (all pairs|triples of consecutive "
             "requests over {None,0..T-1}) and must answer like a freshly bound object; non-trivial = the "
             "call's result carries a finite non-zero number (it read the data). histories: breadth-first over all "
             "operation sequences up to the depth from the empty and the all-simulated initial history, deduplicated by "
             "(per derivative: declared dtype, buffer names/shapes/dtypes; hedger: parameter dtype, prev_output "
             "shape/dtype, training flag, derivative a shared ModuleOutput is bound to and the last time step its bound "
             "features were asked for; names of all attributes stored on hedger, model, derivatives, underliers); every transition is executed on real objects "
             "and checked (frame rule incl. autograd state, parameter frame, hedger/copy separation, ambient grad mode / default "
             "dtype / training flag, three fresh-hedger differentials incl. the other torch default dtype); non-trivial = query "
             "transitions with a data-dependent result. shared feature objects: every sequence of uses (hedger A|B, derivative, "
             "compute_hedge|compute_pl|compute_loss) up to the length, of two hedgers holding the same feature object, and every "
             "chain of of(derivative, none|A|B) up to the length on the bare feature object; the last use / binding is compared bitwise "
             "with a fresh world; non-trivial = both hedgers (two different bindings) occur and the result carries data")
    ctx.assume("abstract states merged by canon() have the same futures w.r.t. the property: control flow of pfhedge "
               "does not branch on series or parameter values, and both differential oracles copy the live values")
    ctx.assume("the autograd state (requires_grad, is_leaf, grad_fn) of every instrument series and of every caller tensor is "
               "part of the observable state: a query that changes it is a violation (class autograd_state_changed); the "
               "former leak through autogreek was fixed in /repo by 6febe5a")
    ctx.assume("ModuleOutput.of rebinds in place by design (it returns self): holding a bound ModuleOutput across a "
               "rebinding is outside the property; the hedger rebinds before every use, which the histories exercise")
    ctx.assume("values of the 'empty' feature are uninitialised memory: only side effects are checked for it")
    ctx.alphabet("stock spot", W.STOCK_ALPHABET)
    ctx.alphabet("rate spot", W.RATE_ALPHABET)
    ctx.alphabet("variance", W.SECOND["variance"])
    ctx.alphabet("volatility", W.SECOND["volatility"])
    ctx.alphabet("primary", list(W.PRIMARIES))
    ctx.alphabet("derivative", list(market.ALL_DERIVATIVE_KINDS))
    ctx.alphabet("history operations", [_fmt([o]) for o in W.operations("mlp", ctx.tier)])
    ctx.alphabet("hedger variants", list(W.VARIANTS))
    # -- pure functions -----------------------------------------------------------------------------------------
    for dtype in ("float64", "float32"):
        ctx.run("pure_calls_family", {"dtype": dtype})
    # -- call matrix on instruments ---------------------------------------------------------------------------------
    blocks = []
    T = ctx.pick(3, 4)
    for kind in W.PRIMARIES:
        for dk in market.ALL_DERIVATIVE_KINDS:
            dtypes = ["float64"]
            if ctx.thorough or (kind, dk) in (("brownian", "european"), ("heston", "lookback"), ("local_vol", "american_binary"),
                                              ("cir", "variance_swap")):
                dtypes.append("float32")
            i, j = W.PRIMARIES.index(kind), market.ALL_DERIVATIVE_KINDS.index(dk)
            rich = (i % 6 == j) or ((i + 3) % 6 == j)
            for dtype in dtypes:
                blocks.append({"primary": kind, "derivative": dk, "dtype": dtype, "T": T, "rich": rich})
                if ctx.thorough and dk in ("european", "european_binary"):
                    blocks.append({"primary": kind, "derivative": dk, "dtype": dtype, "T": T, "call": False, "rich": rich})
    if ctx.quick:
        blocks.append({"primary": "brownian", "derivative": "european", "dtype": "float64", "T": T, "call": False, "rich": True})
        blocks.append({"primary": "heston", "derivative": "european_binary", "dtype": "float64", "T": T, "call": False, "rich": False})
    # one block per world; a few worlds per task so that worker start-up is amortised
    workers = int(os.environ.get("VERIF_WORKERS", "0") or 0) or 4
    if ctx.quick:            # single process: total CPU is what counts on a shared machine
        for b in blocks:
            ctx.run("instrument_calls", b)
    else:
        ctx.run_parallel("instrument_worlds", [{"worlds": blocks[k::workers * 3]} for k in range(workers * 3)],
                         workers=workers)
    # -- histories ---------------------------------------------------------------------------------------------------
    hblocks = []
    for variant in W.VARIANTS:
        hblocks.append({"variant": variant, "init": [list(o) for o in PRESIM], "depth": ctx.pick(3, 4), "ops": ctx.tier})
        hblocks.append({"variant": variant, "init": [], "depth": ctx.pick(1, 3), "ops": ctx.tier})
    hblocks.sort(key=lambda b: -len(b["init"]))          # the deep explorations first (stable: variants stay simplest first)
    ctx.info["max_depth"] = ctx.pick(3, 4)
    if ctx.quick:
        for b in hblocks:
            ctx.run("histories", b)
    else:
        ctx.run_parallel("histories", hblocks, workers=workers)
    # -- one feature object shared by two hedgers / re-bound several times ----------------------------------------------
    # quick: path counts (2,3,2), two uses (the earlier one a compute_hedge), chains of two bindings; thorough: three uses (the
    # earlier ones hedge|loss - compute_pl is compute_hedge plus arithmetic on its result), chains of three bindings, and the
    # second path configuration with two uses (all operations) and chains of two bindings
    sblocks = [{"kind": kind, "paths": list(SHARED_PATHS[0]), "length": ctx.pick(2, 3),
                "earlier_ops": ctx.pick(["hedge"], ["hedge", "loss"]), "chain_length": ctx.pick(2, 3)} for kind in SHARED_KINDS]
    if ctx.thorough:
        sblocks += [{"kind": kind, "paths": list(SHARED_PATHS[1]), "length": 2, "earlier_ops": list(SHARED_OPS), "chain_length": 2}
                    for kind in SHARED_KINDS]
    ctx.alphabet("shared feature objects", list(SHARED_KINDS))
    if ctx.quick:
        for b in sblocks:
            ctx.run("shared_feature_objects", b)
    else:
        ctx.run_parallel("shared_feature_objects", sblocks, workers=workers)


def _oce():
    from pfhedge.nn.modules.loss import OCE
    return OCE(lambda x: 1 - (-x).exp())

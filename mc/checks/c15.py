"""C15 - fit() performs exactly the documented training protocol.  Engine: bfs (protocol automaton).

Every configuration of the stated product (epoch count, n_times, validation, optimiser class /
instance, lazy / materialised / parameter-free model, criterion, hedge list, initial state, batch
size, state of the hedger before the call) is run through the real ``Hedger.fit`` with
harness-side instrumentation only:

  * ``underlier.simulate`` is owned (core ScriptedSimulate): every call is logged with the batch
    size / initial state / grad mode the code asked for and is answered with a scripted batch that
    depends on the call index, so every epoch and every validation evaluation sees its own batch
    and the reference loop sees the same batches;
  * a probe sub-module at the bottom of the hedging model records ``self.training`` and
    ``torch.is_grad_enabled()`` at every forward;
  * ``Optimizer.zero_grad`` / ``Tensor.backward`` / the global optimiser step hooks / the
    hedger's ``train`` are wrapped; the step pre-hook snapshots every parameter and its ``.grad``.

Histories are [state before, fit] and [state before, fit, (replace hedger.model,) fit] on one hedger; for a
call with an optimiser class the reference builds a fresh optimiser over the current model's parameters.

Oracles
  (a) the recorded event trace is accepted event-for-event by ``fit_protocol.FitAutomaton``;
  (b) lock-step comparison with ``fit_protocol.reference_fit`` on an identically prepared second
      world: gradient present at each step (bitwise; the reference gradient is that of the
      epoch's batch alone), parameters after each step and after fit (bitwise, including the
      parameters no optimiser owns), history (None / k entries = mean of n_times evaluations),
      exceptions (same type on both sides);
  (c) which optimiser stepped: the supplied instance, or exactly one constructed instance of the
      requested class over the model's parameters;
  (d) family ``real_rng``: the same comparison with pfhedge's real simulator and torch's real
      generator under ``torch.manual_seed`` (bitwise parameter and history equality).
"""
from __future__ import annotations

import itertools
import math
import os

import torch

from mc.core import market
from mc.core.explore import all_paths
from mc.core.runner import HarnessError
from mc.models.fit_protocol import FitAutomaton, Reject, expected_trace, loss_of_pl, reference_fit

FAMILIES = {}


def family(fn):
    FAMILIES[fn.__name__] = fn
    return fn


T_STEPS = 3
RETURNS = [-0.125, 0.0625, 0.25]   # dyadic one-step returns of the scripted batches
N_SCRIPTS = 64

OPTS = ("default", "sgd_class", "user_class", "sgd_inst", "user_inst")
MODELS = ("lazy_mlp", "mlp", "free_mo")
# three-layer MLPs with one frozen (requires_grad=False) layer: first / middle / last in model.parameters() order
FROZEN = ("mlp_frozen_first", "mlp_frozen_mid", "mlp_frozen_last")
CRITERIA = ("erm", "es", "oce", "mse")
# every built-in hedging loss (ExpectedShortfall at three levels): with a payoff that differs per path the loss fit()
# optimises / reports must be the criterion of the P&L tensor (reference: criterion(portfolio - payoff), ONE argument)
BUILTIN = ("erm", "entropic_loss", "es25", "es", "es75", "qcvar", "oce", "mse")
# a criterion whose VALUE is not finite on the scripted batches (log of a negative terminal wealth) while its gradient
# -1/(N pl_i) is: the documented loop still takes its k steps
NONFINITE = ("iso_log",)
HEDGES = ("none", "stock", "stock+listed")
PRES = ("fresh", "eval", "stale_grad")
# two fit() calls on ONE hedger: (optimiser kind of call 1, of call 2)
SEQUENCES = (("default", "default"), ("sgd_class", "sgd_class"), ("user_class", "user_class"),
             ("default", "sgd_class"), ("default", "user_inst"), ("sgd_inst", "same_inst"), ("sgd_inst", "default"))


# --------------------------------------------------------------------------------------
# a user optimiser: allocates its state at construction (as torch's Adagrad does), so it
# cannot be constructed over parameters that are not materialised yet
# --------------------------------------------------------------------------------------

class UserOptimizer(torch.optim.Optimizer):
    def __init__(self, params, lr=0.0625, beta=0.5):
        super().__init__(params, dict(lr=lr, beta=beta))
        for g in self.param_groups:
            for p in g["params"]:
                self.state[p]["acc"] = torch.zeros_like(p)

    @torch.no_grad()
    def step(self, closure=None):
        for g in self.param_groups:
            for p in g["params"]:
                if p.grad is None:
                    continue
                acc = self.state[p]["acc"]
                acc.mul_(g["beta"]).add_(p.grad)
                p.add_(acc, alpha=-g["lr"])


# --------------------------------------------------------------------------------------
# world
# --------------------------------------------------------------------------------------

class Probe(torch.nn.Module):
    """Identity; records (training, grad mode) at every forward into ``sink`` when set."""

    def __init__(self):
        super().__init__()
        self.sink = None

    def forward(self, x):
        if self.sink is not None:
            self.sink.append(("forward", bool(self.training), bool(torch.is_grad_enabled())))
        return x


class Probed(torch.nn.Module):
    def __init__(self, net, n_hedges, free=False):
        super().__init__()
        self.net = net
        self.inner = torch.nn.Sequential(Probe())   # two levels below the hedger
        self.free = free
        self.n_hedges = n_hedges

    @property
    def probe(self):
        return self.inner[0]

    def forward(self, x):
        x = self.inner(x)
        if self.free:
            # parameter-free strategy: a smooth function of the features (the trainable part is
            # the ModuleOutput feature in the last column)
            y = torch.sigmoid(4 * (x[..., [0]] - 1) + x[..., [-1]])
            return torch.cat([y * (0.5 ** h) for h in range(self.n_hedges)], dim=-1)
        return self.net(x)


def _oce_utility(x):
    return -(-x).exp()


def make_criterion(name):
    from pfhedge.nn import ExpectedShortfall
    from pfhedge.nn.modules.loss import OCE
    if name == "erm":
        return None  # the constructor default
    if name == "es":
        return ExpectedShortfall(0.5)
    if name == "es25":
        return ExpectedShortfall(0.25)
    if name == "es75":
        return ExpectedShortfall(0.75)
    if name == "entropic_loss":
        from pfhedge.nn import EntropicLoss
        return EntropicLoss()
    if name == "qcvar":
        from pfhedge.nn import QuadraticCVaR
        return QuadraticCVaR(2.0)
    if name == "oce":
        c = OCE(_oce_utility)
        with torch.no_grad():
            c.w.fill_(0.25)
        return c
    if name == "mse":
        return torch.nn.MSELoss()
    if name == "iso_log":
        from pfhedge.nn import IsoelasticLoss
        return IsoelasticLoss(a=1.0)
    raise KeyError(name)


def script_for_call(c, T):
    """Scripted batch of simulate call number ``c``: rows (5c + j) mod |R|^(T-1) of the complete
    set of return paths, scaled by the requested initial state."""
    rets = all_paths(RETURNS, T - 1, dtype=torch.float64)

    def script(n_paths, time_horizon, init_state):
        s0 = 1.0 if init_state is None else float(init_state[0])
        idx = (5 * c + torch.arange(int(n_paths))) % rets.size(0)
        r = rets[idx]
        spot = torch.cat([torch.ones(int(n_paths), 1, dtype=torch.float64), (1 + r).cumprod(-1)], dim=-1) * s0
        return {"spot": spot.to(torch.get_default_dtype())}   # dyadic values: exact; a float64 instrument casts it up
    return script


class RecSimulate(market.ScriptedSimulate):
    """Core ScriptedSimulate + the shared, ordered event trace."""

    def __init__(self, p, scripts, events):
        super().__init__(p, scripts, cycle=True)
        self.events = events

    def __call__(self, n_paths=1, time_horizon=20 / 250, init_state=None):
        if self.events is not None:
            self.events.append(("simulate", n_paths, init_state, bool(torch.is_grad_enabled())))
        out = super().__call__(n_paths=n_paths, time_horizon=time_horizon, init_state=init_state)
        self.last_spot = self.p.spot.detach().clone()
        return out


class PassSimulate:
    """Real simulator, logged (family real_rng)."""

    def __init__(self, p, events):
        self.p = p
        self.events = events
        self.orig = type(p).simulate
        p.__dict__["simulate"] = self

    def __call__(self, n_paths=1, time_horizon=20 / 250, init_state=None):
        if self.events is not None:
            self.events.append(("simulate", n_paths, init_state, bool(torch.is_grad_enabled())))
        out = self.orig(self.p, n_paths=n_paths, time_horizon=time_horizon, init_state=init_state)
        self.last_spot = self.p.spot.detach().clone()
        return out


class World:
    pass


def build_world(case, events):
    """Real instruments + hedger for one configuration.  Deterministic given the case."""
    import pfhedge.instruments as I
    from pfhedge.features import ModuleOutput
    from pfhedge.nn import Hedger, MultiLayerPerceptron
    w = World()
    T = case.get("T", T_STEPS)
    torch.manual_seed(1000 + case.get("wseed", 0))
    f64 = case.get("dtype") == "float64"
    stock_cost = case.get("stock_cost", 1 / 256)
    stock = market.primary("brownian", dtype=torch.float64 if f64 else None, cost=stock_cost, dt=market.DT, sigma=0.25)
    call = bool(case.get("call", True))
    deriv = market.derivative("european", stock, T=T, strike=1.0) if call else market.derivative("european", stock, T=T, strike=1.0, call=False)
    clause = case.get("clause")
    if clause == "cap":
        deriv.add_clause("c15_cap", lambda d, payoff: payoff.clamp(max=0.0625))
    elif clause == "knockout":
        deriv.add_clause("c15_knockout", lambda d, payoff: payoff.where(d.ul().spot.max(-1).values < 1.28125, torch.zeros_like(payoff)))
    elif clause is not None:
        raise KeyError(clause)

    def payoff_model(spot):
        """The harness' own model of the contract: European call (put) payoff folded through the clause."""
        z = torch.nn.functional.relu(spot[..., -1] - 1.0) if call else torch.nn.functional.relu(1.0 - spot[..., -1])
        if clause == "cap":
            z = torch.minimum(z, torch.full_like(z, 0.0625))
        elif clause == "knockout":
            z = torch.where(spot.max(-1).values < 1.28125, z, torch.zeros_like(z))
        return z
    w.payoff_model = payoff_model
    if case.get("rng", "scripted") == "scripted":
        w.sim = RecSimulate(stock, [script_for_call(c, T) for c in range(N_SCRIPTS)], events)
    else:
        w.sim = PassSimulate(stock, events)
    hv = case["hedge"]
    listed = None
    if hv == "stock+listed":
        listed = I.EuropeanOption(stock, strike=1.125, maturity=(T - 1) * market.DT)
        listed.list(lambda d: torch.nn.functional.relu(d.ul().spot - 1.125) + 0.25 * d.ul().spot, cost=1 / 128)
    hedge = {"none": None, "stock": [stock], "stock+listed": [stock, listed]}[hv]
    H = 1 if hedge is None else len(hedge)
    mv = case["model"]
    w.mo_module = None
    if mv == "lazy_mlp":
        net = MultiLayerPerceptron(out_features=H, n_layers=1, n_units=3, activation=torch.nn.Tanh())
        inputs = ["moneyness", "time_to_maturity", "prev_hedge"]
        model = Probed(net, H)
        fwd = T - 1
    elif mv == "mlp":
        net = MultiLayerPerceptron(2, H, n_layers=1, n_units=3, activation=torch.nn.Tanh())
        inputs = ["moneyness", "time_to_maturity"]
        model = Probed(net, H)
        fwd = 1
    elif mv in FROZEN:
        net = MultiLayerPerceptron(2, H, n_layers=2, n_units=3, activation=torch.nn.Tanh())
        layer = {"mlp_frozen_first": 0, "mlp_frozen_mid": 2, "mlp_frozen_last": 4}[mv]
        for p in net[layer].parameters():
            p.requires_grad_(False)
        inputs = ["moneyness", "time_to_maturity"]
        model = Probed(net, H)
        fwd = 1
    elif mv == "free_mo":
        w.mo_module = torch.nn.Sequential(torch.nn.Linear(1, 2), torch.nn.Tanh(), torch.nn.Linear(2, 1))
        inputs = ["moneyness", "time_to_maturity", ModuleOutput(w.mo_module, ["log_moneyness"])]
        model = Probed(None, H, free=True)
        fwd = 1
    else:
        raise KeyError(mv)
    crit = make_criterion(case["criterion"])
    hedger = Hedger(model, inputs) if crit is None else Hedger(model, inputs, criterion=crit)
    if f64:
        hedger.double()
        if w.mo_module is not None:
            w.mo_module.double()
    w.dtype = torch.float64 if f64 else torch.get_default_dtype()
    # the harness' own record of the contract terms of the hedging instruments
    w.costs = [stock_cost] + ([1 / 128] if hv == "stock+listed" else [])

    def portfolio_model():
        """Self-financing wealth of the hedge the model computes, from the harness' list of prices and cost rates
        (pfhedge's pl() is C01's business and is used as the arithmetic)."""
        from pfhedge.nn.functional import pl
        hl = [stock] if hedge is None else hedge
        spot = torch.stack([h.spot for h in hl], dim=1)
        unit = hedger.compute_hedge(deriv, hedge=hedge)
        return pl(spot=spot, unit=unit, cost=list(w.costs))
    w.portfolio_model = portfolio_model
    model.probe.sink = events
    w.stock, w.derivative, w.listed, w.hedge, w.H, w.T = stock, deriv, listed, hedge, H, T
    w.hedger, w.model, w.fwd_per_eval = hedger, model, fwd
    w.init_state = None if case["init"] is None else (case["init"],)
    w.events = events
    return w


def tracked(w):
    """name -> Parameter for every parameter in the world (the hedger's module tree, which contains
    the model and the criterion, plus the ModuleOutput's module, which is not in that tree)."""
    out = {}
    for n, p in w.hedger.named_parameters():
        out["hedger." + n] = p
    if w.mo_module is not None:
        for n, p in w.mo_module.named_parameters():
            out["module_output." + n] = p
    if getattr(w, "old_model", None) is not None:
        for n, p in w.old_model.named_parameters():
            out["replaced_model." + n] = p
    return out


def is_lazy(p):
    return isinstance(p, torch.nn.parameter.UninitializedParameter)


def snap(params, grads=False):
    out = {}
    for n, p in params.items():
        if is_lazy(p):
            out[n] = "lazy"
        elif grads:
            out[n] = None if p.grad is None else p.grad.detach().clone()
        else:
            out[n] = p.detach().clone()
    return out


def same(a, b):
    if a is None or b is None or isinstance(a, str) or isinstance(b, str):
        return (a is None and b is None) or (isinstance(a, str) and isinstance(b, str) and a == b)
    if a.shape != b.shape or a.dtype != b.dtype:
        return False
    return bool(torch.equal(a, b) or torch.equal(a.nan_to_num(nan=1.25e30), b.nan_to_num(nan=1.25e30)))


def diff_names(a, b):
    return sorted(n for n in set(a) | set(b) if n not in a or n not in b or not same(a[n], b[n]))


def calls_of(case):
    """The fit() calls of one history: the case itself and, when ``then`` is given, a second call on the SAME
    hedger (same batch size / n_times / validation / init_state / hedge list) with its own optimiser kind and
    epoch count, optionally after ``hedger.model`` was replaced by a new model."""
    calls = [{"k": case["k"], "opt": case["opt"], "swap": False}]
    t = case.get("then")
    if t:
        calls.append({"k": t["k"], "opt": t["opt"], "swap": bool(t.get("swap", False))})
    return calls


def prepare(case, events):
    """World + state of the hedger before the first call."""
    w = build_world(case, events)
    w.old_model = None
    w.opt_arg = w.opt_cls = None
    w.case = case
    torch.manual_seed(2000 + case.get("wseed", 0))
    return w


def _set_sinks(w, events):
    w.events = events
    w.sim.events = events
    w.model.probe.sink = events


def begin_call(w, case, call, ci, events):
    """Everything a user does right before the ci-th fit() call: (replace the model,) materialise a lazy model
    when an optimiser *instance* is to be built, (first call: leave stale gradients / eval mode,) build the
    ``optimizer`` argument, seed the generator.  Identical on the world under test and on the reference world."""
    from pfhedge.nn import MultiLayerPerceptron
    wseed = case.get("wseed", 0)
    torch.manual_seed((2000 if ci == 0 else 4000) + wseed + ci)
    if ci > 0:
        if call["swap"]:
            F = 2 if case["model"] == "mlp" else 2 + w.H
            net = MultiLayerPerceptron(F, w.H, n_layers=1, n_units=2, activation=torch.nn.Tanh())
            new = Probed(net, w.H)
            new.train(w.hedger.training)
            w.old_model = w.hedger.model
            w.hedger.model = new
            w.model = new
    _set_sinks(w, events)
    opt = call["opt"]
    inst = opt.endswith("_inst")
    w.lazy_at_call = any(is_lazy(p) for p in w.hedger.parameters())
    if inst and w.lazy_at_call:
        # the documented way to use an optimiser instance with a lazy model: placeholder forward first
        _set_sinks(w, None)
        w.derivative.simulate(n_paths=1)
        w.hedger.compute_pl(w.derivative, hedge=w.hedge)
        _set_sinks(w, events)
        w.lazy_at_call = False
    params = tracked(w)
    if ci == 0:
        pre = case.get("pre", "fresh")
        if pre in ("stale_grad", "used"):
            for i, (n, p) in enumerate(sorted(params.items())):
                if not is_lazy(p):
                    p.grad = torch.full_like(p, 0.5 + 0.25 * i)
        if pre in ("eval", "used"):
            w.hedger.eval()
    # parameters a user would hand to an optimiser instance: everything trainable and in use
    trainable = [p for n, p in sorted(params.items()) if not n.startswith("replaced_model.") and (is_lazy(p) or p.requires_grad)]
    if opt == "default":
        w.opt_arg, w.opt_cls = None, torch.optim.Adam
    elif opt == "sgd_class":
        w.opt_arg, w.opt_cls = torch.optim.SGD, torch.optim.SGD
    elif opt == "user_class":
        w.opt_arg, w.opt_cls = UserOptimizer, UserOptimizer
    elif opt == "sgd_inst":
        w.opt_arg, w.opt_cls = torch.optim.SGD(trainable, lr=0.125, momentum=0.5), None
    elif opt == "user_inst":
        w.opt_arg, w.opt_cls = UserOptimizer(trainable, lr=0.125), None
    elif opt == "same_inst":
        if ci == 0 or w.opt_cls is not None or w.opt_arg is None:
            raise HarnessError("C15: 'same_inst' needs a previous call with an optimiser instance")
    else:
        raise KeyError(opt)
    torch.manual_seed(3000 + wseed + 17 * ci)


# --------------------------------------------------------------------------------------
# instrumentation of one fit() call
# --------------------------------------------------------------------------------------

class Recorder:
    def __init__(self, w, events):
        self.w = w
        self.events = events
        self.params = None
        self.steps = []        # per optimiser step: dict(opt, grads, before, after)
        self.seen_opts = []    # optimisers whose zero_grad()/step() was called while recording
        self.backward_info = []
        self.loss_finite = []

    def __enter__(self):
        import torch.optim.optimizer as O
        rec = self
        self._orig_backward = torch.Tensor.backward
        self._orig_zero = torch.optim.Optimizer.zero_grad

        def backward(t, *a, **kw):
            rec.events.append(("backward",))
            rec.backward_info.append((tuple(t.shape), bool(t.requires_grad)))
            rec.loss_finite.append(bool(torch.isfinite(t.detach()).all()))
            return rec._orig_backward(t, *a, **kw)

        def zero_grad(opt, *a, **kw):
            rec.events.append(("zero_grad",))
            if not any(o is opt for o in rec.seen_opts):
                rec.seen_opts.append(opt)
            return rec._orig_zero(opt, *a, **kw)

        torch.Tensor.backward = backward
        torch.optim.Optimizer.zero_grad = zero_grad

        def pre(opt, args, kwargs):
            rec.events.append(("step",))
            if not any(o is opt for o in rec.seen_opts):
                rec.seen_opts.append(opt)
            p = tracked(rec.w)
            rec.steps.append({"opt": opt, "grads": snap(p, grads=True), "before": snap(p),
                              "batch": getattr(rec.w.sim, "last_spot", None)})

        def post(opt, args, kwargs):
            rec.steps[-1]["after"] = snap(tracked(rec.w))

        self._h1 = O.register_optimizer_step_pre_hook(pre)
        self._h2 = O.register_optimizer_step_post_hook(post)
        hedger = self.w.hedger
        cls_train = type(hedger).train
        cls_zero = type(hedger).zero_grad

        def train(mode=True):
            rec.events.append(("mode", bool(mode)))
            return cls_train(hedger, mode)

        def mzero(*a, **kw):
            rec.events.append(("zero_grad",))
            return cls_zero(hedger, *a, **kw)

        object.__setattr__(hedger, "train", train)
        object.__setattr__(hedger, "zero_grad", mzero)
        return self

    def __exit__(self, *exc):
        torch.Tensor.backward = self._orig_backward
        torch.optim.Optimizer.zero_grad = self._orig_zero
        self._h1.remove()
        self._h2.remove()
        self.w.hedger.__dict__.pop("train", None)
        self.w.hedger.__dict__.pop("zero_grad", None)
        return False


_DEVNULL = None


def call_fit(w, case, call):
    global _DEVNULL
    kw = dict(n_epochs=call["k"], n_paths=case["n_paths"], n_times=case["n_times"],
              init_state=w.init_state, verbose=bool(case.get("verbose", False)), validation=case["validation"])
    if kw["verbose"]:
        # the progress bar is on; its output goes to the null device instead of stderr
        if _DEVNULL is None:
            _DEVNULL = open(os.devnull, "w")
        kw["tqdm_kwargs"] = {"file": _DEVNULL}
    if w.hedge is not None:
        kw["hedge"] = w.hedge
    if w.opt_arg is not None:
        kw["optimizer"] = w.opt_arg
    return w.hedger.fit(w.derivative, **kw)


def run_reference(w, case, call):
    """reference_fit on an identically prepared world; returns (raised, history, per-epoch grads/params).
    A class optimiser is built FRESH over the current model's parameters for every call."""
    grads, after = [], []
    params = tracked(w)

    def make_optimizer():
        if w.opt_cls is None:
            return w.opt_arg
        if any(is_lazy(p) for p in w.hedger.parameters()):
            # documented: run a placeholder forward to initialise lazy parameters (with the hedging
            # instruments the loop will use: the model's output width is the number of hedges)
            w.derivative.simulate(n_paths=1)
            w.hedger.compute_pl(w.derivative, hedge=w.hedge)
        return w.opt_cls(w.hedger.model.parameters())

    try:
        hist, opt = reference_fit(
            w.hedger, w.derivative, w.hedge, make_optimizer, call["k"], case["n_paths"], case["n_times"],
            w.init_state, case["validation"],
            on_grad=lambda e, o: grads.append(snap(tracked(w), grads=True)),
            on_step=lambda e, o: after.append(snap(tracked(w))),
            payoff_of=lambda: w.payoff_model(w.stock.spot), portfolio_of=w.portfolio_model)
    except Exception as e:  # the reference itself uses pfhedge/torch pieces
        return type(e).__name__, None, grads, after
    return None, hist, grads, after


def unrolled_gradient(w, case, before, batch):
    """Gradient of the training loss of one epoch from an explicit re-implementation, in plain torch, of the recurrent
    hedge (features moneyness, time to maturity, previous output fed DIRECTLY into the next step), of the
    self-financing wealth with proportional costs and of the contractual payoff; nothing of the hedger's loop, hooks or
    buffers is used (only the network's layers, functionally, and the criterion).  For the model ``lazy_mlp``."""
    from torch.func import functional_call
    net = w.model.net
    pre = "hedger.model.net."
    params = {n[len(pre):]: before[n].detach().clone().requires_grad_() for n in before if n.startswith(pre)}
    S = batch
    N, T = S.shape
    H = w.H
    prev = S.new_zeros((N, H))
    units = []
    for t in range(T - 1):
        x = torch.cat([S[:, t:t + 1] / 1.0, S.new_full((N, 1), (T - 1 - t) * market.DT), prev], dim=-1)
        prev = functional_call(net, params, (x,))
        units.append(prev)
    units.append(units[-1])
    unit = torch.stack(units, dim=-1)                                   # (N, H, T)
    prices = [S]
    costs = list(w.costs)
    if H == 2:
        prices.append(torch.nn.functional.relu(S - 1.125) + 0.25 * S)
    wealth = S.new_zeros(N)
    for h in range(H):
        P, u, c = prices[h], unit[:, h, :], costs[h]
        wealth = wealth + (u[:, :-1] * (P[:, 1:] - P[:, :-1])).sum(-1)
        wealth = wealth - c * (P[:, 1:] * (u[:, 1:] - u[:, :-1]).abs()).sum(-1) - c * P[:, 0] * u[:, 0].abs()
    crit = w.hedger.criterion
    cparams = {n: before["hedger.criterion." + n].detach().clone().requires_grad_() for n, _ in crit.named_parameters()}
    # the loss is the criterion of the P&L tensor (one argument)
    loss = functional_call(crit, cparams, (wealth - w.payoff_model(S),)) if cparams else loss_of_pl(crit, wealth - w.payoff_model(S))
    names = [pre + n for n in params] + ["hedger.criterion." + n for n in cparams]
    tensors = list(params.values()) + list(cparams.values())
    grads = torch.autograd.grad(loss, tensors, allow_unused=True)
    return {n: (torch.zeros_like(t) if g is None else g) for n, t, g in zip(names, tensors, grads)}


def _raised_by_harness(exc):
    """True when the innermost frame of the traceback is harness code (a harness bug); an exception
    raised by pfhedge or torch code while fit() runs is an outcome of fit()."""
    import os
    tb = exc.__traceback__
    last = None
    while tb is not None:
        last = tb.tb_frame.f_code.co_filename
        tb = tb.tb_next
    from mc.core.runner import VERIF
    return isinstance(exc, HarnessError) or (last is not None and os.path.realpath(last).startswith(os.path.realpath(VERIF) + os.sep))


def classify_case(case):
    return f"{case['opt']}/{case['model']}" + ("/verbose" if case.get("verbose") else "")


def _per_path_payoff(w, rec):
    """True when some training batch of the call had a payoff that is not the same on every path."""
    for st in rec.steps:
        b = st.get("batch")
        if b is not None and b.size(0) > 1:
            z = w.payoff_model(b)
            if bool((z != z[0]).any()):
                return True
    return False


def check_case(ctx, case, stats):
    """One history: [state before, fit (, replace model?, fit)] on the world under test and, call by call,
    the explicit loop on an identically prepared reference world."""
    mini = {"cases": [case]}
    calls = calls_of(case)
    w = prepare(case, [])
    w2 = prepare(case, [])
    all_nontrivial = True
    stats["runs"] += 1
    earlier_opts = []
    for ci, call in enumerate(calls):
        events = []
        begin_call(w, case, call, ci, events)
        params0 = snap(tracked(w))
        raised = history = None
        raised_msg = ""
        with Recorder(w, events) as rec:
            try:
                history = call_fit(w, case, call)
            except Exception as e:
                if _raised_by_harness(e):
                    raise
                raised = type(e).__name__
                raised_msg = str(e)[:200]
        final = snap(tracked(w))
        # the explicit loop on the second world (its events are not needed)
        begin_call(w2, case, call, ci, [])
        _set_sinks(w2, None)
        if ci == 0 and diff_names(params0, snap(tracked(w2))):
            raise HarnessError("C15: two preparations of the same case differ (harness nondeterminism)")
        r_raised, r_hist, r_grads, r_after = run_reference(w2, case, call)
        r_final = snap(tracked(w2))
        ok = _compare_call(ctx, case, call, ci, w, rec, events, params0, final, history, raised, raised_msg,
                           r_raised, r_hist, r_grads, r_after, r_final, earlier_opts, mini, stats)
        earlier_opts += list(rec.seen_opts)
        all_nontrivial = all_nontrivial and call["k"] >= 1 and raised is None and r_raised is None
        if not ok:
            break      # the two worlds have diverged: later calls would only repeat the report
    stats["nontrivial"] += int(all_nontrivial)
    if len(calls) > 1:
        stats["two_call_histories"] = stats.get("two_call_histories", 0) + 1


def _compare_call(ctx, case, call, ci, w, rec, events, params0, final, history, raised, raised_msg,
                  r_raised, r_hist, r_grads, r_after, r_final, earlier_opts, mini, stats):
    site = "Hedger.fit"
    pfx = "" if ci == 0 else "second_call:"
    tag = f"[{classify_case(case)}" + (f" then {call['opt']}{'/new model' if call['swap'] else ''}" if ci else "") + "]"
    k = call["k"]
    good = True
    ctx.outcome((ci, raised, len(events), None if history is None else len(history)))

    # exceptions
    if raised != r_raised:
        if raised is not None:
            cls = f"{pfx}raises:{raised}"
            if w.lazy_at_call and w.opt_cls is not None and w.H != 1:
                # classifier: lazy parameters + optimiser class + a hedge list whose length differs from
                # the number of underliers (the placeholder forward of the lazy initialisation)
                cls += ":lazy_model_class_optimizer_hedge_list_len_ne_underliers"
            ctx.violation(site, cls, f"fit raised {raised} ({raised_msg}) where the explicit loop "
                          f"{'raised ' + r_raised if r_raised else 'runs'} {tag}",
                          observed=raised, expected=r_raised, block=mini)
        else:
            ctx.violation(site, f"{pfx}no_exception:{r_raised}", f"fit returned where the explicit loop raises {r_raised} {tag}",
                          observed=None, expected=r_raised, block=mini)
        return False
    if raised is not None:
        # both refuse (e.g. a class optimiser over a parameter-free model): nothing may have changed
        if diff_names(params0, final):
            ctx.violation(site, f"{pfx}raised_but_changed_parameters", f"fit raised after changing parameters {tag}",
                          observed=diff_names(params0, final), expected=[], block=mini)
        return False

    # (a) protocol automaton
    lazy_init = bool(w.lazy_at_call and w.opt_cls is not None)
    aut = FitAutomaton(k, case["n_paths"], case["n_times"], w.init_state, case["validation"], lazy_init)
    try:
        aut.run(events)
    except Reject as r:
        good = False
        ctx.violation(site, f"{pfx}trace:{r.code}", f"event trace rejected by the protocol automaton: {r} "
                      f"{tag} k={k}, n_times={case['n_times']}, validation={case['validation']}",
                      observed=[list(map(_j, e)) for e in events[max(0, r.index - 6): r.index + 2]],
                      expected=str(r.expected), block=mini)
    stats["transitions"] += aut.matched
    if _per_path_payoff(w, rec):
        stats["runs_with_per_path_payoff"] = stats.get("runs_with_per_path_payoff", 0) + 1
        ctx.outcome(("per_path_payoff", case["criterion"], bool(case.get("call", True))))
    stats["states"].update(aut.visited)

    # backward is called on a scalar that requires grad
    for shp, rg in rec.backward_info:
        if shp != () or not rg:
            ctx.violation(site, f"{pfx}backward_operand", f"backward() called on a tensor of shape {shp}, requires_grad={rg}",
                          observed=[list(shp), rg], expected=[[], True], block=mini)

    if rec.loss_finite and not all(rec.loss_finite):
        stats["nonfinite_loss_runs"] = stats.get("nonfinite_loss_runs", 0) + 1
        finite_grads = all(g is None or isinstance(g, str) or bool(torch.isfinite(g).all())
                           for st in rec.steps for g in st["grads"].values())
        if finite_grads and len(rec.steps) == k:
            stats["nonfinite_loss_finite_gradient_runs"] = stats.get("nonfinite_loss_finite_gradient_runs", 0) + 1
    # (c) which optimiser stepped, how often, over which parameters
    n_steps = len(rec.steps)
    if n_steps != k:
        good = False
        ctx.violation(site, f"{pfx}step_count", f"{n_steps} optimiser steps for n_epochs={k} {tag}", observed=n_steps,
                      expected=k, block=mini)
    if w.opt_cls is None:
        if any(o is not w.opt_arg for o in rec.seen_opts):
            ctx.violation(site, f"{pfx}optimizer:not_the_supplied_instance", f"zero_grad()/step() was called on another optimiser than the supplied instance {tag}",
                          observed=[type(o).__name__ for o in rec.seen_opts], expected=type(w.opt_arg).__name__, block=mini)
    elif k >= 1:
        if len(rec.seen_opts) != 1 or type(rec.seen_opts[0]) is not w.opt_cls:
            ctx.violation(site, f"{pfx}optimizer:construction", f"fit must construct and use exactly one optimiser of the requested class {tag}",
                          observed=[type(o).__name__ for o in rec.seen_opts], expected=[w.opt_cls.__name__], block=mini)
        else:
            o = rec.seen_opts[0]
            ids = [id(p) for g in o.param_groups for p in g["params"]]
            model_ids = [id(p) for p in w.hedger.model.parameters()]       # the CURRENT model
            hedger_ids = set(id(p) for p in w.hedger.parameters())
            # the documentation says optimizer(hedger.parameters()), the code uses model.parameters();
            # the property only speaks of "the constructed optimiser": anything between the two is accepted
            need_ids = set(id(p) for p in w.hedger.model.parameters() if p.requires_grad)
            if not (need_ids <= set(ids) <= hedger_ids) or len(ids) != len(set(ids)):
                ctx.violation(site, f"{pfx}optimizer:parameter_set", f"the constructed optimiser does not own every trainable parameter of the current model (and only the hedger's) {tag}",
                              observed=len(set(ids) & need_ids), expected=len(need_ids), block=mini)
            # an optimiser constructed for this call has taken exactly this call's k steps
            # (torch optimisers keep a per-parameter step counter; the user optimiser does not)
            counts = set()
            for st in o.state.values():
                if isinstance(st, dict) and "step" in st:
                    counts.add(int(st["step"]))
            if counts and counts != {k}:
                ctx.violation(site, f"{pfx}optimizer:step_counter", f"the optimiser used by this call has taken {sorted(counts)} steps, the call has n_epochs={k} "
                              f"(an optimiser carried over from an earlier call?) {tag}", observed=sorted(counts), expected=[k], block=mini)

    # (b) lock-step with the explicit loop
    reported = False
    for e in range(min(n_steps, len(r_grads))):
        bad = diff_names(rec.steps[e]["grads"], r_grads[e])
        if bad and not reported:
            reported = True
            cls = "grad:first_epoch" if e == 0 else "grad:later_epoch_not_fresh"
            n0 = bad[0]
            ctx.violation(site, pfx + cls, f"gradient handed to the optimiser at epoch {e} differs from the gradient of the "
                          f"criterion on that epoch's batch alone ({len(bad)} parameters, first {n0}) {tag} pre={case.get('pre')}",
                          observed=rec.steps[e]["grads"][n0], expected=r_grads[e][n0], block=mini)
        bad = diff_names(rec.steps[e].get("after", {}), r_after[e])
        if bad and not reported:
            reported = True
            n0 = bad[0]
            ctx.violation(site, f"{pfx}params:after_step", f"parameters after the step of epoch {e} differ from the explicit loop "
                          f"({len(bad)} parameters, first {n0}) {tag}",
                          observed=rec.steps[e]["after"].get(n0), expected=r_after[e][n0], block=mini)
    # (b') gradient of each step against a reference that shares NOTHING with the hedger's recurrent loop
    if case["model"] == "lazy_mlp" and not call["swap"]:
        for e in range(n_steps):
            st = rec.steps[e]
            if st.get("batch") is None or any(isinstance(v, str) for v in st["before"].values()):
                continue
            owned_e = set(id(p) for g in st["opt"].param_groups for p in g["params"])
            ref = unrolled_gradient(w, case, st["before"], st["batch"])
            cur_e = tracked(w)
            scale = max([float(v.abs().max()) for v in ref.values()] + [1e-30])
            stats["unrolled_gradients"] = stats.get("unrolled_gradients", 0) + 1
            for n_, gref in ref.items():
                if id(cur_e[n_]) not in owned_e:
                    continue
                got = st["grads"].get(n_)
                got = torch.zeros_like(gref) if got is None else got
                # float32, a few hundred operations in another order: 1e-3 of the gradient's scale
                if not bool(((got - gref).abs() <= 1e-3 * scale + 1e-7).all()):
                    ctx.violation(site, f"{pfx}grad:differs_from_unrolled_recurrence", f"gradient handed to the optimiser at epoch {e} ({n_}) differs from the "
                                  f"gradient of the explicitly unrolled recurrence (previous hedge fed directly into the next step) {tag}",
                                  observed=got.flatten()[:6], expected=gref.flatten()[:6], block=mini)
                    break
    bad = diff_names(final, r_final)
    if bad and not reported:
        reported = True
        n0 = bad[0]
        ctx.violation(site, f"{pfx}params:final", f"parameters after fit differ from the explicit loop ({len(bad)} parameters, first {n0}) "
                      f"{tag}", observed=final[n0], expected=r_final[n0], block=mini)
    good = good and not reported
    # parameters outside the optimiser never change
    if n_steps:
        owned = set(id(p) for g in rec.steps[0]["opt"].param_groups for p in g["params"])
    else:
        owned = set()
    cur = tracked(w)
    moved = [n for n in diff_names(params0, final) if id(cur[n]) not in owned and params0[n] != "lazy"]
    if moved:
        ctx.violation(site, f"{pfx}params:changed_outside_optimizer", f"parameters not owned by the optimiser changed: {moved} {tag}",
                      observed=moved, expected=[], block=mini)
    frozen_moved = [n for n in diff_names(params0, final) if n in cur and not is_lazy(cur[n]) and not cur[n].requires_grad]
    if frozen_moved:
        ctx.violation(site, f"{pfx}params:frozen_parameter_changed", f"parameters with requires_grad=False changed: {frozen_moved} {tag}",
                      observed=frozen_moved, expected=[], block=mini)
    # the model in use is what gets trained (vacuity guard + replaced-model variant)
    trainable_now = [n for n in cur if n.startswith("hedger.model.")]
    if k >= 1 and trainable_now and w.opt_cls is not None and not [n for n in diff_names(params0, final) if n.startswith("hedger.model.")]:
        stats["unchanged"] += 1

    # history
    if not case["validation"]:
        if history is not None:
            ctx.violation(site, f"{pfx}history:not_none", "validation=False must return None", observed=_j(history),
                          expected=None, block=mini)
    else:
        if not isinstance(history, list) or len(history) != k:
            ctx.violation(site, f"{pfx}history:length", f"history must have one entry per epoch (k={k})",
                          observed=_j(history), expected=k, block=mini)
        elif r_hist is not None:
            eps = torch.finfo(w.dtype).eps
            for e in range(k):
                vals = r_hist[e]
                exp = math.fsum(vals) / len(vals)
                # ensemble mean of n float32 numbers: (n+1) roundings of magnitude <= eps*max|v|
                tol = (len(vals) + 2) * eps * max(abs(v) for v in vals) if len(vals) > 1 else 0.0
                h = history[e]
                ok = isinstance(h, float) and (abs(h - exp) <= tol or (h != h and exp != exp))
                if not ok:
                    ctx.violation(site, f"{pfx}history:value", f"history[{e}] is not the mean of the {len(vals)} validation evaluations "
                                  f"{tag}", observed=h, expected=exp, block=mini)
                    break
    if ci == 0 and len(ctx.samples) < 2 and k == 2 and case["validation"] and case["n_times"] == 2 and lazy_init:
        ctx.sample({"family": "fit_scripted", "case": case, "trace": [list(map(_j, e)) for e in events],
                    "history": history, "reference_history": r_hist})
    return good


def _j(x):
    if isinstance(x, torch.Tensor):
        return x.tolist()
    if isinstance(x, tuple):
        return [_j(v) for v in x]
    return x


def cases_of(block):
    if "cases" in block:
        return block["cases"]
    keys = list(block["product"])
    out = []
    for combo in itertools.product(*[block["product"][k] for k in keys]):
        c = dict(zip(keys, combo))
        c.update(block.get("fixed", {}))
        v, nt = c.pop("val_ntimes")
        c["validation"], c["n_times"] = v, nt
        out.append(c)
    return out


def _new_stats():
    return {"runs": 0, "nontrivial": 0, "transitions": 0, "states": set(), "unchanged": 0}


def _finish_stats(ctx, stats):
    ctx.tick(stats["runs"], nontrivial=stats["nontrivial"])
    ctx.add("traces_validated_against_impl", stats["runs"])
    ctx.add("transitions", stats["transitions"])
    for s in stats["states"]:
        ctx.outcome(("automaton_state",) + tuple(s))
    if stats["unchanged"]:
        ctx.add("runs_with_steps_but_unchanged_parameters", stats["unchanged"])
    for key in ("two_call_histories", "nonfinite_loss_runs", "nonfinite_loss_finite_gradient_runs", "unrolled_gradients",
                "runs_with_per_path_payoff"):
        if stats.get(key):
            ctx.add(key, stats[key])


@family
def fit_scripted(ctx, block):
    """Every case of the block through fit() on the owned simulator, against automaton + explicit loop."""
    stats = _new_stats()
    for case in cases_of(block):
        case = dict(case, rng="scripted")
        check_case(ctx, case, stats)
    _finish_stats(ctx, stats)


@family
def real_rng(ctx, block):
    """The same comparison with pfhedge's real simulator and torch's real generator, same seed on both sides."""
    stats = _new_stats()
    for case in cases_of(block):
        case = dict(case, rng="real")
        check_case(ctx, case, stats)
    _finish_stats(ctx, stats)


@family
def automaton_selftest(ctx, block):
    """The acceptor accepts the canonical word of every configuration and rejects every single-event
    deletion / flag flip of it that the property forbids (guards against a vacuous acceptor)."""
    n = 0
    for k, nt, val, lazy, fwd in itertools.product([0, 1, 2, 3], [1, 2, 3], [True, False], [True, False], [1, 2]):
        init = (1.25,)
        tr = expected_trace(k, 3, nt, init, val, lazy, fwd)
        try:
            FitAutomaton(k, 3, nt, init, val, lazy).run(tr)
        except Reject as r:
            ctx.violation("FitAutomaton", "selftest:rejects_canonical_trace", str(r), block=block)
        n += 1
        n_lazy = 1 + fwd if lazy else 0
        for i, ev in enumerate(tr):
            muts = []
            in_lazy = i < n_lazy
            if ev[0] == "mode":
                continue                                    # informational
            if not (ev[0] == "forward" and fwd > 1):        # one forward fewer (of two) is legal
                muts.append(tr[:i] + tr[i + 1:])
            if ev[0] == "forward" and not in_lazy:
                muts.append(tr[:i] + [("forward", not ev[1], ev[2])] + tr[i + 1:])
                muts.append(tr[:i] + [("forward", ev[1], not ev[2])] + tr[i + 1:])
            if ev[0] == "simulate" and not in_lazy:
                muts.append(tr[:i] + [("simulate", 1000, ev[2], ev[3])] + tr[i + 1:])
                muts.append(tr[:i] + [("simulate", ev[1], None, ev[3])] + tr[i + 1:])
            if ev[0] in ("backward", "step"):
                muts.append(tr[:i] + [ev, ev] + tr[i + 1:])
            for m in muts:
                n += 1
                try:
                    FitAutomaton(k, 3, nt, init, val, lazy).run(m)
                except Reject:
                    continue
                ctx.violation("FitAutomaton", "selftest:accepts_bad_trace", f"the acceptor accepted a forbidden trace (event {i} {ev})",
                              observed=[list(map(_j, e)) for e in m], expected="reject", block=block)
    ctx.add("automaton_selftest_traces", n)


# --------------------------------------------------------------------------------------

def run(ctx):
    ctx.rule("bfs over fit() histories: every configuration of the stated products (k, (validation, n_times), "
             "optimiser kind, model kind, criterion, hedge list, init_state, n_paths, state before the call) is one "
             "history [pre-op, fit]; its complete event trace is fed to the protocol automaton and compared in "
             "lock-step with the explicit loop; non-trivial = at least one epoch and no refusal")
    ctx.assume("torch's autograd/optimisers are deterministic on one thread, so identical protocols give bitwise identical parameters")
    ctx.assume("scripted batches: rows (5c+j) mod 9 of all 9 return paths over {-1/8,1/16,1/4} for simulate call c; "
               "the real simulator is used in family real_rng")
    ctx.alphabet("k", [0, 1, 2, 3] if ctx.thorough else [0, 1, 2])
    ctx.alphabet("optimizer", list(OPTS))
    ctx.alphabet("model", list(MODELS) + list(FROZEN))
    ctx.alphabet("criterion", list(BUILTIN) + list(NONFINITE))
    ctx.alphabet("derivative", ["european call", "european put"])
    ctx.alphabet("verbose", [False, True])
    ctx.alphabet("dtype", ["default float32", "float64"])
    ctx.alphabet("hedge_cost_rates", [[1 / 256, 1 / 128], [0.0, 1 / 128]])
    ctx.alphabet("payoff_clause", [None, "cap at 1/16", "knock-out at 1.28125"])
    ctx.alphabet("hedge", list(HEDGES))
    ctx.alphabet("pre", list(PRES))
    ctx.alphabet("two_call_sequences(optimiser of call 1, of call 2)", [list(x) for x in SEQUENCES])
    wseed = ctx.seed % 5
    ctx.run("automaton_selftest", {})
    if ctx.quick:
        VN = [[False, 1], [True, 1], [True, 2]]
        # P1: protocol factors in full, content at two corners
        p1 = {"product": {"k": [0, 1, 2], "val_ntimes": VN, "opt": list(OPTS), "model": list(MODELS),
                          "content": [["erm", "none", None, 3], ["oce", "stock+listed", 1.25, 1]],
                          "pre": ["fresh", "used"]}}
        # P2: content factors in full, protocol at the two richest corners
        p2 = {"product": {"criterion": list(CRITERIA), "hedge": list(HEDGES), "init": [None, 1.25], "n_paths": [1, 3],
                          "proto": [[2, [True, 2], "default", "lazy_mlp", "fresh"], [2, [True, 2], "user_inst", "free_mo", "used"],
                                    [1, [True, 1], "sgd_class", "mlp", "used"]]}}
        blocks = [_expand(p1, wseed), _expand(p2, wseed)]
        for b in blocks:
            ctx.run("fit_scripted", b)
        # P4: partially frozen models x every optimiser kind (class and instance)
        p4 = {"product": {"k": [1, 2], "val_ntimes": [[True, 1]], "opt": list(OPTS), "model": list(FROZEN),
                          "content": [["erm", "none", None, 3], ["oce", "stock+listed", 1.25, 1]], "pre": ["fresh", "used"]}}
        ctx.run("fit_scripted", _expand(p4, wseed))
        p5 = {"product": {"k": [2], "val_ntimes": [[True, 2]], "opt": list(OPTS), "model": list(FROZEN),
                          "content": [["erm", "stock+listed", 1.25, 3]], "pre": ["fresh"]}}
        ctx.run("real_rng", _expand(p5, wseed))
        # P6: a training loss that is not finite while its gradient is; P7: the progress bar on (verbose=True)
        p6 = {"product": {"k": [1, 2], "val_ntimes": [[False, 1], [True, 1]], "opt": list(OPTS), "model": ["mlp", "lazy_mlp"],
                          "content": [[c, "none", None, 3] for c in NONFINITE], "pre": ["fresh"]}}
        ctx.run("fit_scripted", _expand(p6, wseed))
        p7 = {"product": {"k": [1, 2], "val_ntimes": [[False, 1], [False, 2], [True, 2]], "opt": ["default", "sgd_inst"],
                          "model": list(MODELS), "content": [["erm", "none", None, 3]], "pre": ["fresh", "used"], "verbose": [True]}}
        ctx.run("fit_scripted", _expand(p7, wseed))
        p7["product"]["pre"] = ["fresh"]
        ctx.run("real_rng", _expand(p7, wseed))
        # P8: derivatives whose payoff is changed by a clause (cap, knock-out)
        p8 = {"product": {"k": [1, 2], "val_ntimes": [[True, 1]], "opt": ["default", "sgd_inst", "user_class"], "model": ["mlp", "lazy_mlp"],
                          "content": [["erm", "none", None, 3], ["oce", "stock+listed", 1.25, 3]], "pre": ["fresh"],
                          "clause": ["cap", "knockout"]}}
        ctx.run("fit_scripted", _expand(p8, wseed))
        # P9: float64 instruments and hedger (history entries are compared as python floats: bitwise for n_times = 1);
        # P10: a hedge list whose cost rates are mixed (the stock is frictionless, the listed option is not)
        p9 = {"product": {"k": [1, 2], "val_ntimes": [[True, 1], [True, 2]], "opt": ["default", "sgd_inst"], "model": ["mlp"],
                          "content": [["erm", "none", None, 3], ["oce", "stock+listed", 1.25, 3]], "pre": ["fresh"], "dtype": ["float64"]}}
        ctx.run("fit_scripted", _expand(p9, wseed))
        p10 = {"product": {"k": [1, 2], "val_ntimes": [[True, 1]], "opt": ["default", "sgd_inst", "user_class"], "model": ["mlp", "lazy_mlp"],
                           "content": [["erm", "stock+listed", None, 3], ["oce", "stock+listed", 1.25, 3]], "pre": ["fresh"],
                           "stock_cost": [0.0]}}
        ctx.run("fit_scripted", _expand(p10, wseed))
        # P11: every built-in criterion x call / put x batch size (3, and all 9 scripted paths: the payoff differs per path)
        # x hedge list at two protocol corners: the loss fit() optimises / reports is criterion(pl), pl = portfolio - payoff
        p11 = {"product": {"criterion": list(BUILTIN) + list(NONFINITE), "call": [True, False], "n_paths": [3, 9],
                           "hedge": ["none", "stock+listed"], "init": [None],
                           "proto": [[2, [True, 2], "default", "lazy_mlp", "fresh"], [1, [True, 1], "sgd_inst", "mlp", "fresh"]]}}
        ctx.run("fit_scripted", _expand(p11, wseed))
        p12 = {"product": {"criterion": list(BUILTIN), "call": [True, False], "n_paths": [5], "hedge": ["stock"], "init": [1.0],
                           "proto": [[2, [True, 2], "sgd_class", "mlp", "fresh"]]}}
        ctx.run("real_rng", _expand(p12, wseed))
        two = _two_call_cases(wseed, [(1, 1), (2, 2), (0, 1)], [(True, 1), (False, 1)],
                              [["erm", "none", None, 3]], ["fresh"])
        two += _two_call_cases(wseed, [(1, 2)], [(True, 2)], [["oce", "stock+listed", 1.25, 1]], ["used"])
        ctx.run("fit_scripted", {"cases": two})
        ctx.run("real_rng", {"cases": _two_call_cases(wseed, [(1, 1)], [(True, 2)], [["erm", "stock+listed", 1.25, 3]], ["fresh"])})
        # real RNG: protocol factors at one content corner
        p3 = {"product": {"k": [0, 1, 2], "val_ntimes": [[False, 1], [True, 2]], "opt": list(OPTS), "model": list(MODELS),
                          "content": [["erm", "stock+listed", 1.25, 3]], "pre": ["fresh"]}}
        ctx.run("real_rng", _expand(p3, wseed))
    else:
        VN = [[False, 1], [True, 1], [True, 2], [True, 3]]
        blocks = []
        for opt in OPTS:
            for model in MODELS:
                for crit in CRITERIA:
                    p = {"product": {"k": [0, 1, 2, 3], "val_ntimes": VN, "opt": [opt], "model": [model],
                                     "criterion": [crit], "hedge": list(HEDGES), "init": [None, 1.25],
                                     "n_paths": [1, 3], "pre": list(PRES)}}
                    blocks.append(_expand(p, wseed))
        for opt in OPTS:
            p = {"product": {"k": [0, 1, 2, 3], "val_ntimes": VN, "opt": [opt], "model": list(FROZEN),
                             "criterion": ["erm", "oce"], "hedge": ["none", "stock+listed"], "init": [None, 1.25],
                             "n_paths": [3], "pre": ["fresh", "used"]}}
            blocks.append(_expand(p, wseed))
        blocks.append(_expand({"product": {"k": [1, 2, 3], "val_ntimes": VN, "opt": list(OPTS), "model": ["mlp", "lazy_mlp"] + list(FROZEN),
                                           "criterion": list(NONFINITE), "hedge": list(HEDGES), "init": [None, 1.25],
                                           "n_paths": [3], "pre": ["fresh", "used"]}}, wseed))
        blocks.append(_expand({"product": {"k": [1, 2, 3], "val_ntimes": [[False, 1], [True, 2]], "opt": list(OPTS), "model": list(MODELS),
                                           "criterion": list(CRITERIA), "hedge": list(HEDGES), "init": [None, 1.25], "n_paths": [3],
                                           "pre": ["fresh"], "clause": ["cap", "knockout"]}}, wseed))
        blocks.append(_expand({"product": {"k": [1, 2, 3], "val_ntimes": VN, "opt": list(OPTS), "model": ["mlp"],
                                           "criterion": list(CRITERIA), "hedge": list(HEDGES), "init": [None, 1.25], "n_paths": [3],
                                           "pre": ["fresh"], "dtype": ["float64"]}}, wseed))
        blocks.append(_expand({"product": {"k": [1, 2, 3], "val_ntimes": [[False, 1], [True, 2]], "opt": list(OPTS), "model": ["mlp", "lazy_mlp"],
                                           "criterion": list(CRITERIA), "hedge": ["stock+listed"], "init": [None, 1.25], "n_paths": [3],
                                           "pre": ["fresh"], "stock_cost": [0.0]}}, wseed))
        for model in MODELS:
            blocks.append(_expand({"product": {"k": [0, 1, 2, 3], "val_ntimes": VN, "opt": list(OPTS), "model": [model],
                                               "criterion": ["erm", "oce"], "hedge": ["none", "stock+listed"], "init": [None],
                                               "n_paths": [3], "pre": ["fresh", "used"], "verbose": [True]}}, wseed))
        for opt in OPTS:
            blocks.append(_expand({"product": {"k": [1, 2], "val_ntimes": [[False, 1], [True, 1], [True, 2]], "opt": [opt], "model": list(MODELS),
                                               "criterion": list(BUILTIN) + list(NONFINITE), "call": [True, False],
                                               "hedge": ["none", "stock+listed"], "init": [None], "n_paths": [3, 9],
                                               "pre": ["fresh"]}}, wseed))
        ctx.run_parallel("fit_scripted", blocks, workers=min(_workers(), len(blocks)))
        rblocks = []
        rblocks.append(_expand({"product": {"k": [1, 2, 3], "val_ntimes": VN, "opt": list(OPTS), "model": list(MODELS),
                                            "criterion": ["erm"], "hedge": ["none", "stock+listed"], "init": [1.25],
                                            "n_paths": [3], "pre": ["fresh"], "verbose": [True]}}, wseed))
        rblocks.append(_expand({"product": {"k": [1, 2], "val_ntimes": [[True, 2]], "opt": list(OPTS), "model": list(MODELS),
                                            "criterion": list(BUILTIN), "call": [True, False], "hedge": ["stock"], "init": [1.0],
                                            "n_paths": [5], "pre": ["fresh"]}}, wseed))
        rblocks.append(_expand({"product": {"k": [1, 2, 3], "val_ntimes": [[True, 2]], "opt": list(OPTS), "model": list(FROZEN),
                                            "criterion": ["erm", "oce"], "hedge": ["none", "stock+listed"], "init": [1.25],
                                            "n_paths": [3], "pre": ["fresh"]}}, wseed))
        for opt in OPTS:
            for model in MODELS:
                p = {"product": {"k": [0, 1, 2, 3], "val_ntimes": VN, "opt": [opt], "model": [model],
                                 "criterion": list(CRITERIA), "hedge": list(HEDGES), "init": [None, 1.25],
                                 "n_paths": [3], "pre": ["fresh", "used"]}}
                rblocks.append(_expand(p, wseed))
        two = _two_call_cases(wseed, [(k1, k2) for k1 in (0, 1, 2) for k2 in (1, 2)], [(False, 1), (True, 2)],
                              [[c, h, i, 3] for c in ("erm", "oce") for h, i in (("none", None), ("stock+listed", 1.25))],
                              ["fresh", "used"])
        tblocks = [{"cases": two[i:i + 400]} for i in range(0, len(two), 400)]
        ctx.run_parallel("fit_scripted", tblocks, workers=min(_workers(), len(tblocks)))
        rtwo = _two_call_cases(wseed, [(1, 1), (2, 2)], [(True, 2)], [["erm", "stock+listed", 1.25, 3], ["oce", "none", None, 3]], ["fresh"])
        rblocks += [{"cases": rtwo[i:i + 400]} for i in range(0, len(rtwo), 400)]
        ctx.run_parallel("real_rng", rblocks, workers=min(_workers(), len(rblocks)))
    _count_states(ctx)
    ctx.counters["max_depth"] = 2 if ctx.quick else 3   # epochs per history (the bfs bound completed)


def _two_call_cases(wseed, k_pairs, vns, contents, pres):
    """Histories [pre, fit, (replace hedger.model,) fit]: every sequence x model (x replaced or not) x epoch
    counts x (validation, n_times) x content corner x pre-state."""
    cases = []
    for (o1, o2), model, swap, (k1, k2), (val, nt), (crit, hedge, init, n_paths), pre in itertools.product(
            SEQUENCES, MODELS, [False, True], k_pairs, vns, contents, pres):
        if swap and (model == "free_mo" or o2 == "same_inst"):
            continue      # nothing to replace in a parameter-free model; a kept instance keeps its parameters
        if model == "free_mo" and not o1.endswith("_inst"):
            continue      # a class optimiser over a parameter-free model is refused (covered by the one-call product)
        cases.append({"k": k1, "opt": o1, "model": model, "pre": pre, "criterion": crit, "hedge": hedge, "init": init,
                      "n_paths": n_paths, "validation": val, "n_times": nt, "wseed": wseed,
                      "then": {"k": k2, "opt": o2, "swap": swap}})
    return cases


def _count_states(ctx):
    states = sorted((o[1:] for o in ctx.outcomes if isinstance(o, tuple) and o and o[0] == "automaton_state"), key=repr)
    ctx.counters["states"] = len(states)
    ctx.info["automaton_states"] = [list(s) for s in states]


def _workers():
    return int(os.environ.get("VERIF_WORKERS", 8))


def _expand(p, wseed):
    """Written-out case list of a product (so that a block is self-contained and replayable)."""
    keys = list(p["product"])
    cases = []
    for combo in itertools.product(*[p["product"][k] for k in keys]):
        c = dict(zip(keys, combo))
        if "content" in c:
            c["criterion"], c["hedge"], c["init"], c["n_paths"] = c.pop("content")
        if "proto" in c:
            c["k"], c["val_ntimes"], c["opt"], c["model"], c["pre"] = c.pop("proto")
        v, nt = c.pop("val_ntimes")
        c["validation"], c["n_times"] = v, nt
        c["wseed"] = wseed
        cases.append(c)
    return {"cases": cases}

"""C17 - instrument dtype/device contract over any cast/simulate sequence.
Engine: bfs to a fixpoint over the finite abstract state
(declared dtype, declared device, buffer names/dtypes, global default dtype).

Families
  dtype_bfs   one (primary class, derivative class) pair: breadth-first search over histories of
              public operations on REAL objects (to/float/double/half/bfloat16/to(tensor)/
              to(instrument)/to(device)/cpu/simulate/register_buffer/set_default_dtype and the
              rejected non-floating casts, on the primary and through the derivative), from every
              constructor variant, de-duplicated by the observed abstract state, run to a fixpoint.
              Every transition is compared with the reference automaton (models/dtype_machine):
              declared dtype/device, every buffer's dtype/device, the exception a rejected cast
              must raise and that it changes nothing, derivative.dtype/device == underlier's.
              In every state that has simulated buffers: payoff, every applicable feature, the
              listed price, Hedger.compute_hedge/compute_portfolio/compute_pl (hedger cast to the
              buffers' dtype) and compute_loss/price (which re-simulate: hedger cast to the dtype
              simulations are produced in) have the expected dtype and live on the cpu.
  dtype_history  the same checks along one explicit history (replay of a counterexample).
  produced_in    every primary class x global default x declared dtype x way of declaring it: the following
              simulation is PRODUCED in the declared dtype (column 0 = declared-dtype rounding of the initial
              state, values not all representable in a narrower dtype, draws requested in the declared dtype).
"""
from __future__ import annotations

import os

import torch

from mc.core import explore
from mc.core.runner import HarnessError
from mc.models import dtype_machine as DM
from mc.models.series_contract import DTYPES, HALF, INSTRUMENTS, is_backend_unsupported

FAMILIES = {}


def family(fn):
    FAMILIES[fn.__name__] = fn
    return fn


ALL_DT = dict(DTYPES, int32=torch.int32, int64=torch.int64, complex64=torch.complex64, bool=torch.bool)
NAME_OF = {v: k for k, v in ALL_DT.items()}

PRIMARY_KW = {"LocalVolatilityStock": {"sigma_fn": lambda t, s: torch.full_like(s, 0.2)}}
CALLS = ("european", "lookback", "european_binary", "american_binary")
PUTS = tuple(k + "_put" for k in CALLS)                     # the same classes with call=False
DERIVATIVES = CALLS + ("forward_start", "variance_swap") + PUTS
OPTION_KINDS = CALLS + PUTS
BS_LISTABLE = CALLS + ("european_put", "european_binary_put")   # BlackScholes prices these
COST = 1e-4        # proportional transaction cost of the primaries: the cost terms of the P&L are exercised
HAS_VOL = {k for k, v in INSTRUMENTS.items() if v["vol"]}
DT_STEP = 1 / 250


NONDEFAULT_INIT = {"geometric_brownian": [1.3], "cir": [0.07], "heston": [1.3, 0.07], "vasicek": [0.013],
                   "merton_jump": [1.3], "kou_jump": [1.3], "rough_bergomi": [1.3, 0.07],
                   "local_volatility": [1.3]}


def _derivative(kind, p):
    import pfhedge.instruments as I
    m = 2 * DT_STEP
    if kind in PUTS:
        cls = {"european": I.EuropeanOption, "lookback": I.LookbackOption, "european_binary": I.EuropeanBinaryOption,
               "american_binary": I.AmericanBinaryOption}[kind[:-4]]
        return cls(p, call=False, maturity=m)
    if kind == "european":
        return I.EuropeanOption(p, maturity=m)
    if kind == "lookback":
        return I.LookbackOption(p, maturity=m)
    if kind == "european_binary":
        return I.EuropeanBinaryOption(p, maturity=m)
    if kind == "american_binary":
        return I.AmericanBinaryOption(p, maturity=m)
    if kind == "forward_start":
        return I.EuropeanForwardStartOption(p, maturity=m, start=DT_STEP)
    if kind == "variance_swap":
        return I.VarianceSwap(p, strike=0.04, maturity=m)
    raise KeyError(kind)


def _arg_instrument(name):
    import pfhedge.instruments as I
    if name == "primary_float64":
        return I.BrownianStock(dtype=torch.float64)
    if name == "primary_undeclared":
        return I.BrownianStock()
    if name == "primary_float16_cpu":
        return I.BrownianStock(dtype=torch.float16, device=torch.device("cpu"))
    if name == "derivative_float32":
        return I.EuropeanOption(I.BrownianStock(dtype=torch.float32))
    raise KeyError(name)


# ---------------------------------------------------------------------------------
# operation alphabet (JSON lists; simplest first)
# ---------------------------------------------------------------------------------
def operations(level):
    ops = [["simulate"], ["simulate_init"], ["to", "float64"], ["to_kw", "float32"], ["to", "float16"], ["to_kw", "bfloat16"],
           ["alias", "double"], ["alias", "float"], ["alias", "half"], ["alias", "bfloat16"],
           ["alias", "float64"], ["alias", "float16"],
           ["to_tensor", "float64"], ["to_instrument", "primary_float64"], ["to_instrument", "primary_undeclared"],
           ["to_instrument", "derivative_float32"],
           ["to_device", "cpu"], ["cpu"], ["set_default", "float64"], ["set_default", "float32"],
           ["register_buffer", "float64"], ["register_buffer", "float32"],
           ["to_instrument_kw", "primary_float64"], ["to", "int32"], ["to_kw", "int64"], ["to", "complex64"],
           ["d.to", "float64"], ["d.to_kw", "float16"], ["d.alias", "float"], ["d.simulate"], ["d.to_instrument", "primary_undeclared"],
           ["d.to", "int32"]]
    if level == "full":
        ops += [["alias", "float32"],
                ["to_tensor", "float16"], ["to_tensor", "int64"], ["to", "bool"],
                ["to_instrument", "primary_float16_cpu"],
                ["to_device_dtype", "float64"],
                ["d.alias", "double"], ["d.alias", "half"], ["d.alias", "bfloat16"],
                ["d.to_tensor", "float32"], ["d.cpu"], ["d.to_kw", "int64"]]
    return ops


def operations_two(level):
    """Alphabets of the two-instrument worlds: a second primary q (same class, declares float32) may register
    a buffer of the first one (q.register_buffer("spot", p.spot)); whatever is then done to p must not reach q."""
    if level == "two":
        return [["simulate"], ["q.share"], ["to", "float64"], ["to_kw", "float32"], ["alias", "half"],
                ["alias", "double"], ["d.to", "float64"], ["d.alias", "float"], ["to_tensor", "float64"],
                ["simulate_init"], ["register_alias"]]
    if level == "two_int":      # buffers registered from integer / bool tensors (documented: any tensor)
        return [["simulate"], ["register_buffer", "int64"], ["register_buffer", "bool"],
                ["register_spot_int", "int64"], ["to", "float64"], ["to_kw", "float32"], ["alias", "half"],
                ["d.to", "float64"], ["to_instrument", "primary_undeclared"]]
    return operations("core") + [["q.share"], ["register_alias"]]


Q_DECLARED = "float32"
# operations after which the persistent hedger is not queried in the quick tier (they neither cast nor simulate)
NO_HEDGE = ("set_default", "register_buffer", "register_alias", "register_spot_int", "to_device", "cpu")


class _ParamFree(torch.nn.Module):
    """A hedging model without parameters (nothing for Hedger.to() to cast), fed with prev_hedge."""

    def forward(self, x):
        return 0.5 * x[..., :1] + 0.25 * x[..., -1:]


def _model_op(op):
    """Operation as the reference automaton sees it."""
    k = op[0]
    if k == "q.share":
        return ["noop"]
    if k.endswith("to_instrument_kw"):
        return [k.replace("to_instrument_kw", "to_instrument")] + op[1:]
    return op


def _apply(world, op):
    kind, arg = op[0], (op[1] if len(op) > 1 else None)
    target = world.p
    if kind == "q.share":
        world.q.register_buffer("spot", world.p.spot)
        return
    if kind == "register_spot_int":   # the price series handed over as an INTEGER tensor (documented: any tensor)
        world.p.register_buffer("spot", torch.ones(2, 3, dtype=ALL_DT[arg]))
        return
    if kind == "register_alias":      # an existing buffer tensor under a second name
        world.p.register_buffer("reference", world.p.get_buffer("spot"))
        return
    if kind.startswith("d."):
        target, kind = world.d, kind[2:]
    if kind == "to":
        target.to(ALL_DT[arg])
    elif kind == "to_kw":
        target.to(dtype=ALL_DT[arg])
    elif kind == "alias":
        getattr(target, arg)()
    elif kind == "to_tensor":
        target.to(torch.zeros(1, dtype=ALL_DT[arg]))
    elif kind == "to_instrument":
        target.to(_arg_instrument(arg))
    elif kind == "to_instrument_kw":
        target.to(instrument=_arg_instrument(arg))
    elif kind == "to_device":
        target.to(device="cpu")
    elif kind == "cpu":
        target.cpu()
    elif kind == "to_device_dtype":
        target.to("cpu", ALL_DT[arg])
    elif kind == "simulate":
        if target is world.d:
            target.simulate(n_paths=2)
        else:
            target.simulate(n_paths=2, time_horizon=2 * DT_STEP)
    elif kind == "simulate_init":     # non-default initial state (python floats, non-dyadic)
        init = tuple(NONDEFAULT_INIT[INSTRUMENTS[world.cfg["primary"]]["gen"]])
        if target is world.d:
            target.simulate(n_paths=3, init_state=init)
        else:
            target.simulate(n_paths=3, time_horizon=2 * DT_STEP, init_state=init)
    elif kind == "register_buffer":
        target.register_buffer("aux", torch.ones(2, 3, dtype=ALL_DT[arg]))
    elif kind == "set_default":
        torch.set_default_dtype(ALL_DT[arg])
    else:
        raise HarnessError(f"unknown op {op}")


# ---------------------------------------------------------------------------------
# worlds: real objects built lazily from a history
# ---------------------------------------------------------------------------------
class World:
    """history[0] = ["ctor", dtype|None, device|None]; the rest are operations."""

    def __init__(self, cfg, history, reads=False):
        self.cfg = cfg
        self.history = [list(h) for h in history]
        self.reads = reads           # observe the derived quantities after EVERY operation of the replay
        self.read_problems = []      # (position, site, name, observed dtype/exception, expected dtype)
        self.hedger = None           # the persistent hedger (see _hedge)
        self.hedger2 = None
        self.listed = None
        self._features = {}
        self.q = self.dq = None
        self.n_reads = 0
        self._built = False
        self.p = self.d = None
        self.events = []          # per op: None | exception
        self.default = cfg["default0"]

    def build(self):
        if self._built:
            return self
        self._built = True
        import pfhedge.instruments as I
        prev = torch.get_default_dtype()
        try:
            torch.set_default_dtype(DTYPES[self.cfg["default0"]])
            torch.default_generator.manual_seed(17)   # cpu generator only (torch.manual_seed costs 1 ms)
            ctor = self.history[0]
            kw = dict(PRIMARY_KW.get(self.cfg["primary"], {}))
            if ctor[1] is not None:
                kw["dtype"] = DTYPES[ctor[1]]
            if ctor[2] is not None:
                kw["device"] = torch.device(ctor[2])
            if self.cfg.get("engine"):      # the documented quasi-random engine instead of torch.randn
                from pfhedge.stochastic.engine import RandnSobolBoxMuller
                # (scrambled, seeded: the unscrambled sequence starts at 0 and gives NaN paths in float16, a C11 matter)
                kw["engine"] = RandnSobolBoxMuller(scramble=True, seed=7)
            self.p = getattr(I, self.cfg["primary"])(dt=DT_STEP, cost=COST, **kw)
            self.d = _derivative(self.cfg["derivative"], self.p)
            # a listed derivative on the same underlier (user pricer: a function of the underlier's spot), kept
            # listed through the whole history: its price is read, and used as a hedge, between the operations
            self.listed = _derivative(self.cfg["derivative"], self.p)
            self.listed.list(_spot_pricer, cost=COST)
            # a second instrument of the same class that declares float32, and a derivative on it
            kwq = dict(PRIMARY_KW.get(self.cfg["primary"], {}))
            if self.cfg.get("engine"):
                kwq["engine"] = RandnSobolBoxMuller(scramble=True, seed=7)
            self.q = getattr(I, self.cfg["primary"])(dt=DT_STEP, cost=COST, dtype=DTYPES[Q_DECLARED], **kwq)
            self.dq = _derivative(self.cfg["derivative"], self.q)
            n = len(self.history) - 1
            full_reads = self.cfg.get("reads", "full") == "full"
            # the persistent hedgers hedge before and after the last operation (quick: unless the last one neither
            # casts nor simulates)
            hedge_from = max(1, n - 1)          # the persistent hedgers: before and after the last operation
            if not full_reads and n >= 1:
                last = self.history[n]
                if last[0] == "q.share" or last[0].split(".")[-1] in NO_HEDGE or (
                        len(last) > 1 and last[1] in DM.NONFLOAT):
                    hedge_from = n + 1
            for i, op in enumerate(self.history[1:], start=1):
                try:
                    _apply(self, op)
                    self.events.append(None)
                except HarnessError:
                    raise
                except Exception as e:  # noqa: BLE001 - judged against the automaton by the caller
                    self.events.append(e)
                if self.reads and (full_reads or i >= n - 1):    # quick tier: before and after the last operation
                    self._read(i, core=not full_reads or i < n - 1)   # thorough: full set around the last one
                    if i >= hedge_from and self.cfg.get("persistent_hedger", True):
                        self._hedge(i)
            self.default = NAME_OF[torch.get_default_dtype()]
        finally:
            torch.set_default_dtype(prev)
        return self

    def _hedge(self, position):
        """ONE hedger (parameter-free model, prev_hedge among its inputs, never cast) lives through the whole
        history and hedges after the operations that leave simulated series: its hedge has their dtype."""
        from pfhedge.nn import Hedger
        bufs = dict(self.p.named_buffers())
        if any(n not in bufs for n in sim_buffers(self.cfg["primary"])):
            return
        want = bufs["spot"].dtype
        if self.hedger is None:
            base = ["moneyness", "time_to_maturity"] if self.cfg["derivative"] in OPTION_KINDS \
                else ["underlier_spot", "zeros"]
            self.hedger = Hedger(_ParamFree(), base + ["prev_hedge"])
        try:
            with torch.no_grad():
                out = self.hedger.compute_hedge(self.d)
        except HarnessError:
            raise
        except Exception as e:  # noqa: BLE001
            if not is_backend_unsupported(e, want):
                self.read_problems.append((position, "Hedger.compute_hedge", "compute_hedge[persistent hedger]",
                                           f"{type(e).__name__}: {str(e)[:120]}", NAME_OF.get(want, str(want))))
            return
        self.n_reads += 1
        if out.dtype != want:
            self.read_problems.append((position, "Hedger.compute_hedge", "compute_hedge[persistent hedger]",
                                       NAME_OF.get(out.dtype, str(out.dtype)), NAME_OF.get(want, str(want))))
        # a second persistent hedger trades the underlier AND the listed derivative
        if self.hedger2 is None:
            base = ["moneyness", "time_to_maturity"] if self.cfg["derivative"] in OPTION_KINDS \
                else ["underlier_spot", "zeros"]
            self.hedger2 = Hedger(_ParamFree2(), base + ["prev_hedge"])
        try:
            with torch.no_grad():
                out = self.hedger2.compute_portfolio(self.d, hedge=[self.p, self.listed])
        except HarnessError:
            raise
        except Exception as e:  # noqa: BLE001
            if not is_backend_unsupported(e, want):
                self.read_problems.append((position, "Hedger.compute_portfolio",
                                           "compute_portfolio[persistent hedger, listed hedge]",
                                           f"{type(e).__name__}: {str(e)[:120]}", NAME_OF.get(want, str(want))))
            return
        self.n_reads += 1
        if out.dtype != want:
            self.read_problems.append((position, "Hedger.compute_portfolio",
                                       "compute_portfolio[persistent hedger, listed hedge]",
                                       NAME_OF.get(out.dtype, str(out.dtype)), NAME_OF.get(want, str(want))))

    def _read(self, position, core=False):
        """Reads interleaved with the operations (a concrete object may remember what it handed out):
        volatility / variance properties of the primary, payoff, every applicable feature.  Each must be in
        the dtype the simulated series have at that moment."""
        from pfhedge.features import get_feature
        p, d = self.p, self.d
        bufs = dict(p.named_buffers())
        if any(n not in bufs for n in sim_buffers(self.cfg["primary"])):
            return
        want = bufs["spot"].dtype
        prim = self.cfg["primary"]
        items = []
        if prim in HAS_VOL:
            items += [(prim + ".volatility", "volatility", lambda: p.volatility),
                      (prim + ".variance", "variance", lambda: p.variance)]
        items.append(("derivative(" + self.cfg["derivative"] + ").payoff", "payoff", lambda: d.payoff()))
        items.append(("derivative(" + self.cfg["derivative"] + ").spot", "listed_price", lambda: self.listed.spot))
        names = _feature_names(self.cfg, False)
        if core:      # the features that read derived series
            names = [n for n in names if n in ("volatility", "variance", "underlier_spot", "time_to_maturity")]
        for name in names:
            if name not in self._features:
                self._features[name] = get_feature(name).of(d)
            items.append(("features." + name, name + ".get(None)", lambda f=self._features[name]: f.get(None)))
        if "spot" not in self._features:
            from pfhedge.features import Barrier
            self._features["spot"] = get_feature("spot").of(self.listed)
            self._features["barrier_down"] = Barrier(1.0, up=False).of(d)
            self._features["barrier_up"] = Barrier(1.0, up=True).of(d)
        items.append(("features.spot", "spot.get(None)[listed]", lambda: self._features["spot"].get(None)))
        for bn in (("barrier_down",) if core else ("barrier_down", "barrier_up")):
            items.append(("features.Barrier", bn + ".get(1)", lambda bn=bn: self._features[bn].get(1)))
            if not core:
                items.append(("features.Barrier", bn + ".get(None)", lambda bn=bn: self._features[bn].get(None)))
        qb = dict(self.q.named_buffers())
        with torch.no_grad():
            if "spot" in qb:        # the second instrument: what is computed from it is in ITS declared dtype
                try:
                    out = self.dq.payoff()
                    self.n_reads += 1
                    if out.dtype != DTYPES[Q_DECLARED]:
                        self.read_problems.append((position, "derivative(" + self.cfg["derivative"] + ").payoff",
                                                   "payoff[second instrument]",
                                                   NAME_OF.get(out.dtype, str(out.dtype)), Q_DECLARED))
                except HarnessError:
                    raise
                except Exception as e:  # noqa: BLE001
                    if not is_backend_unsupported(e, qb["spot"].dtype):
                        self.read_problems.append((position, "derivative(" + self.cfg["derivative"] + ").payoff",
                                                   "payoff[second instrument]",
                                                   f"{type(e).__name__}: {str(e)[:120]}", Q_DECLARED))
            for site, name, fn in items:
                try:
                    out = fn()
                except HarnessError:
                    raise
                except Exception as e:  # noqa: BLE001
                    if not is_backend_unsupported(e, want):
                        self.read_problems.append((position, site, name, f"{type(e).__name__}: {str(e)[:120]}",
                                                   NAME_OF.get(want, str(want))))
                    continue
                self.n_reads += 1
                if out.dtype != want or str(out.device) != "cpu":
                    self.read_problems.append((position, site, name, NAME_OF.get(out.dtype, str(out.dtype)),
                                               NAME_OF.get(want, str(want))))

    class _Ctx:
        def __init__(self, w):
            self.w = w

        def __enter__(self):
            self.prev = torch.get_default_dtype()
            torch.set_default_dtype(DTYPES[self.w.default])

        def __exit__(self, *a):
            torch.set_default_dtype(self.prev)
            return False

    def in_default(self):
        """Context manager: the global default dtype this world's history left in force."""
        return World._Ctx(self)

    def observe(self):
        self.build()
        p = self.p
        decl = getattr(p, "dtype", "missing")
        dev = getattr(p, "device", "missing")
        return (NAME_OF.get(decl, None if decl is None else str(decl)),
                None if dev is None else str(dev),
                # read the registry itself (p._buffers), not named_buffers()/buffers(): a listing that skips
                # an entry must not hide it from the invariant
                tuple((n, NAME_OF.get(b.dtype, str(b.dtype))) for n, b in p._buffers.items() if b is not None),
                self.default,
                (NAME_OF.get(getattr(self.q, "dtype", None), str(getattr(self.q, "dtype", None))),
                 tuple((n, NAME_OF.get(b.dtype, str(b.dtype))) for n, b in self.q._buffers.items()
                       if b is not None)))

    def buffer_devices(self):
        return tuple(str(b.device) for b in self.p._buffers.values() if b is not None)


def sim_buffers(primary):
    return INSTRUMENTS[primary]["buffers"]


def model_state(cfg, history):
    """Automaton state after a history, folded from the constructor."""
    ctor = history[0]
    s0 = DM.initial_state(ctor[1], ctor[2], cfg["default0"])
    return DM.fold(s0, [_model_op(o) for o in history[1:]], sim_buffers(cfg["primary"]))


WW_DONE = set()   # (block key, series dtype, global default) for which the Whalley-Wilmott queries were made
OBSERVED = {}     # (cfg key, history key) -> observed abstract state (filled as worlds are observed)


def _ckey(cfg):
    return (cfg["primary"], cfg["derivative"], cfg["default0"], bool(cfg.get("engine")))


def before_state(cfg, hist):
    """Automaton state *before* the last operation = the state observed on the real objects after
    ``hist`` (every prefix was itself checked as a transition, so a defect is reported where it
    happens and does not echo through all the histories that extend it)."""
    key = (_ckey(cfg), _hkey(hist))
    if key not in OBSERVED:
        OBSERVED[key] = World(cfg, hist).observe()
    o = OBSERVED[key]
    return DM.State(o[0], o[1], o[2], o[3])


def before_q(cfg, hist):
    """Observed (declared dtype, buffers) of the second instrument after ``hist``."""
    before_state(cfg, hist)
    return OBSERVED[(_ckey(cfg), _hkey(hist))][4]


# ---------------------------------------------------------------------------------
# transition oracle
# ---------------------------------------------------------------------------------
def _opname(op):
    return op[0] + ("" if len(op) < 2 else f"({op[1]})")


def check_transition(ctx, cfg, hist, op, after, dead):
    """Compare the last operation of hist+[op] on real objects with the automaton.
    Returns False when the operation is unsupported by the backend (dead end, counted)."""
    site = cfg["primary"] + "." + op[0].replace("d.", "") if not op[0].startswith("d.") else \
        "derivative(" + cfg["derivative"] + ")." + op[0][2:]
    full = hist + [op]
    block = {"primary": cfg["primary"], "derivative": cfg["derivative"], "default0": cfg["default0"],
             "engine": bool(cfg.get("engine")), "history": full}
    before_m = before_state(cfg, hist)
    after_m, expect_exc = DM.step(before_m, _model_op(op), sim_buffers(cfg["primary"]))
    after.build()
    exc = after.events[-1]
    obs_all = after.observe()
    obs, obs_q = obs_all[:4], obs_all[4]
    OBSERVED[(_ckey(cfg), _hkey(full))] = obs_all
    exp = after_m.key()
    decl_cls = "undeclared" if before_m.declared is None else "declared"
    if expect_exc is not None:
        if exc is None:
            ctx.violation(site, f"nonfloat_accepted:{_opname(op)}", f"{_opname(op)} must raise {expect_exc} "
                          f"(non-floating dtype) but returned; history {full}", observed=repr(obs),
                          expected=expect_exc, block=block, family="dtype_history")
        elif type(exc).__name__ != expect_exc:
            ctx.violation(site, f"nonfloat_wrong_exception:{type(exc).__name__}", f"{_opname(op)} raised "
                          f"{type(exc).__name__}: {str(exc)[:120]}, documented {expect_exc}; history {full}",
                          observed=type(exc).__name__, expected=expect_exc, block=block, family="dtype_history")
        if obs != exp:
            ctx.violation(site, f"rejected_cast_changed_state:{_opname(op)}", f"rejected {_opname(op)} changed the "
                          f"instrument; history {full}", observed=repr(obs), expected=repr(exp), block=block, family="dtype_history")
        ctx.add("rejected_casts_checked", 1)
        return True
    if exc is not None:
        d = DTYPES.get(after_m.sim_dtype())
        if op[0].split(".")[-1].startswith("simulate") and is_backend_unsupported(exc, d):
            ctx.add("unsupported_half_precision", 1)
            ctx.outcome(("unsupported", cfg["primary"], after_m.sim_dtype(), str(exc)[:60]))
            dead.add(_hkey(full))
            return False
        ctx.violation(site, f"raises:{type(exc).__name__}:{_opname(op)}:{decl_cls}_{before_m.sim_dtype()}",
                      f"{_opname(op)} raised {type(exc).__name__}: {str(exc)[:160]}; history {full}",
                      observed=f"{type(exc).__name__}: {str(exc)[:160]}", expected=repr(exp), block=block, family="dtype_history")
        dead.add(_hkey(full))
        return False
    if obs != exp:
        what = []
        if obs[0] != exp[0]:
            what.append("declared_dtype")
        if obs[1] != exp[1]:
            what.append("declared_device")
        if obs[2] != exp[2]:
            what.append("buffers")
        if obs[3] != exp[3]:
            what.append("global_default")
        ctx.violation(site, f"{'+'.join(what)}_after_{_opname(op)}:{decl_cls}",
                      f"after {_opname(op)} the instrument is {obs}, the contract gives {exp}; history {full}",
                      observed=repr(obs), expected=repr(exp), block=block, family="dtype_history")
    # the second instrument: only q.share touches it, and its buffers stay in the dtype IT declares
    q_before = before_q(cfg, hist)
    q_exp = q_before
    if op[0] == "q.share" and exc is None:
        names = [n for n, _ in q_before[1]]
        q_exp = (Q_DECLARED, tuple((n, Q_DECLARED) for n in names + ([] if "spot" in names else ["spot"])))
    if obs_q != q_exp:
        ctx.violation(cfg["primary"] + ".register_buffer" if op[0] == "q.share" else site,
                      f"second_instrument_changed_by_{op[0]}" if op[0] != "q.share" else "second_instrument_after_share",
                      f"a second instrument (declares {Q_DECLARED}) that registered the first one's spot is "
                      f"{obs_q} after {_opname(op)} on the first, expected {q_exp}; history {full}",
                      observed=repr(obs_q), expected=repr(q_exp), block=block, family="dtype_history")
    elif any(d != obs_q[0] for _, d in obs_q[1]):
        ctx.violation(cfg["primary"] + ".register_buffer", "second_instrument_buffer_dtype_differs_from_declared",
                      f"second instrument {obs_q}; history {full}", observed=repr(obs_q), expected=Q_DECLARED,
                      block=block, family="dtype_history")
    # reads interleaved with the replay: what is handed out after this operation has the series' dtype
    for pos, rsite, name, got, want in after.read_problems:
        if pos == len(full) - 1:
            ctx.violation(rsite, f"stale_read:{name}:{got.split(':')[0]}_expected_{want}_after_{op[0]}",
                          f"{name} read after {_opname(op)} is {got}, the simulated series are {want} (the same "
                          f"quantities were read after every earlier operation of the history); history {full}",
                          observed=got, expected=want, block=block, family="dtype_history")
    ctx.add("interleaved_reads", after.n_reads)
    # invariant: every buffer has the declared dtype, and lives on the cpu
    decl = obs[0]
    if decl is not None and any(d != decl for _, d in obs[2]):
        ctx.violation(site, f"buffer_dtype_differs_from_declared_after_{op[0]}:{decl_cls}",
                      f"buffers {obs[2]} but the instrument declares {decl}; history {full}",
                      observed=repr(obs[2]), expected=decl, block=block, family="dtype_history")
    for n, d in obs[2]:
        got = NAME_OF.get(after.p.get_buffer(n).dtype)
        if got != d:
            ctx.violation(site, f"get_buffer_differs_from_registry_after_{op[0]}", f"get_buffer({n!r}) is {got}, "
                          f"the registry holds {d}; history {full}", observed=got, expected=d, block=block,
                          family="dtype_history")
    if any(dev != "cpu" for dev in after.buffer_devices()):
        ctx.violation(site, f"buffer_device_after_{op[0]}", f"buffer devices {after.buffer_devices()}",
                      observed=list(after.buffer_devices()), expected="cpu", block=block, family="dtype_history")
    # the derivative's dtype/device are those of its underlier
    pd, pdev = getattr(after.p, "dtype", "missing"), getattr(after.p, "device", "missing")
    try:
        dd, ddev = after.d.dtype, after.d.device
    except Exception as e:  # noqa: BLE001
        dd = ddev = f"{type(e).__name__}: {str(e)[:80]}"
    if dd != pd or ddev != pdev:
        ctx.violation("derivative(" + cfg["derivative"] + ").dtype", f"alias_after_{op[0]}",
                      f"derivative dtype/device {dd}/{ddev} != underlier's {pd}/{pdev}; "
                      f"history {full}", observed=[str(dd), str(ddev)], expected=[str(pd), str(pdev)], block=block, family="dtype_history")
    return True


def _hkey(history):
    return tuple(tuple(h) for h in history)


# ---------------------------------------------------------------------------------
# state oracle: everything computed from the instrument has the buffers' dtype
# ---------------------------------------------------------------------------------
def _feature_names(cfg, listed):
    names = ["underlier_spot", "zeros", "empty"]
    if cfg["derivative"] in OPTION_KINDS:
        names += ["moneyness", "log_moneyness", "max_moneyness", "max_log_moneyness", "time_to_maturity",
                  "expiry_time"]
    if cfg["primary"] in HAS_VOL:
        names += ["volatility", "variance"]
    if listed:
        names += ["spot"]
    return names


def _spot_pricer(derivative):
    spot = derivative.ul().spot
    return torch.nn.functional.relu(spot - 1.0) + 0.5 * spot


class _ParamFree2(torch.nn.Module):
    """Parameter-free model for two hedging instruments."""

    def forward(self, x):
        a = 0.5 * x[..., :1] + 0.25 * x[..., -1:]
        return torch.cat([a, -a], dim=-1)


def _bs_pricer():
    from pfhedge.nn import BlackScholes

    def pricer(derivative):
        return BlackScholes(derivative).price(log_moneyness=derivative.log_moneyness(),
                                              time_to_maturity=derivative.time_to_maturity(),
                                              volatility=derivative.ul().volatility)
    return pricer


def _root_search_gives_up(exc, dtype, name):
    """float16/bfloat16 only: the bisection inside quadratic_cvar asks for a precision of 1e-6 x scale, which a
    half-precision bracket cannot reach; on /repo it stops with RuntimeError 'Aborting since iteration exceeds
    max_iter'.  The property exempts what half precision does not support: exactly this error, in a QuadraticCVaR
    query, in a half dtype, is counted as unsupported (any other error, or this one in float32/float64, is judged)."""
    return (dtype in HALF and "QuadraticCVaR" in name and isinstance(exc, RuntimeError)
            and "iteration exceeds max_iter" in str(exc))


def check_state(ctx, cfg, history, world, level):
    """Queries on a state that has simulated buffers."""
    from pfhedge.features import get_feature
    from pfhedge.nn import Hedger
    world.build()
    m = before_state(cfg, history)       # the observed state itself
    sims = [d for n, d in m.buffers if n in sim_buffers(cfg["primary"])]
    if len(sims) != len(sim_buffers(cfg["primary"])):
        return 0                     # not every simulated series is there (e.g. only a hand-registered spot)
    if not sims or world.events and any(e is not None and not isinstance(e, TypeError) for e in world.events):
        return 0
    if len(set(sims)) != 1 or sims[0] not in DTYPES or m.sim_dtype() not in DTYPES or (
            m.declared is not None and sims[0] != m.declared):
        return 0                     # not a state of the contract (reported by the transition check)
    D = DTYPES[sims[0]]             # dtype of the simulated series
    S = DTYPES[m.sim_dtype()]       # dtype a simulation started now is produced in
    block = {"primary": cfg["primary"], "derivative": cfg["derivative"], "default0": cfg["default0"],
             "engine": bool(cfg.get("engine")), "history": history, "queries": level}
    state_cls = ("undeclared" if m.declared is None else "declared") + \
                ("" if sims[0] == m.default else "_nondefault")
    n = 0

    def query(site, name, fn, want):
        nonlocal n
        try:
            with torch.no_grad():
                out = fn()
        except HarnessError:
            raise
        except Exception as e:  # noqa: BLE001
            if is_backend_unsupported(e, want) or _root_search_gives_up(e, want, name):
                ctx.add("unsupported_half_precision", 1)
                ctx.outcome(("unsupported", site, name, str(want), str(e)[:50]))
                return None
            ctx.violation(site, f"raises:{type(e).__name__}:{name}:{NAME_OF[want]}:{state_cls}",
                          f"{name} raised {type(e).__name__}: {str(e)[:200]} in state {m}; history {history}",
                          observed=f"{type(e).__name__}: {str(e)[:200]}", expected=str(want), block=block, family="dtype_history")
            return None
        n += 1
        if not isinstance(out, torch.Tensor):
            return out
        if out.dtype != want or str(out.device) != "cpu":
            ctx.violation(site, f"dtype:{name}:{NAME_OF.get(out.dtype, str(out.dtype))}_expected_{NAME_OF[want]}:{state_cls}",
                          f"{name} has dtype {out.dtype} on {out.device}, the instrument's series are {want} "
                          f"(state {m}); history {history}", observed=[str(out.dtype), str(out.device)],
                          expected=[str(want), "cpu"], block=block, family="dtype_history")
        ctx.outcome((name, str(out.dtype)))
        return out

    with world.in_default():
        d, p = world.d, world.p
        dsite = "derivative(" + cfg["derivative"] + ")"
        query(dsite + ".payoff", "payoff", lambda: d.payoff(), D)
        listed = False
        # documented listing: BlackScholes pricer (needs an option type and an underlier with a volatility)
        if cfg["derivative"] in BS_LISTABLE and cfg["primary"] in HAS_VOL:
            d.list(_bs_pricer())
            listed = query(dsite + ".spot", "listed_price", lambda: d.spot, D) is not None
            if not listed:
                d.delist()
        for name in _feature_names(cfg, listed):
            f = get_feature(name).of(d)
            query("features." + name, name + ".get(None)", lambda f=f: f.get(None), D)
            query("features." + name, name + ".get(0)", lambda f=f: f.get(0), D)
        if listed:
            d.delist()
        # Whalley-Wilmott hedger (parameter-free, stepwise) with a cost-free and a costly underlier, and its width
        # (dtype behaviour depends on the series' dtype and the global default only: once per such pair and block)
        ww_key = (_ckey(cfg), sims[0], m.default)
        if cfg["derivative"] in BS_LISTABLE and cfg["primary"] in HAS_VOL and ww_key not in WW_DONE:
            WW_DONE.add(ww_key)
            from pfhedge.nn import WhalleyWilmott
            old_cost = p.cost
            try:
                for cost in (0.0, COST):
                    p.cost = cost
                    ww = WhalleyWilmott(d)
                    hw = Hedger(ww, ww.inputs())
                    tag = "cost=0" if cost == 0 else "cost>0"
                    query("Hedger.compute_hedge", f"compute_hedge[WhalleyWilmott,{tag}]",
                          lambda: hw.compute_hedge(d), D)
                    query("Hedger.compute_pl", f"compute_pl[WhalleyWilmott,{tag}]", lambda: hw.compute_pl(d), D)
                    query("WhalleyWilmott.width", f"width[{tag}]",
                          lambda: ww.width(torch.cat([get_feature(nm).of(d).get(None) for nm in ww.inputs()
                                                      if nm != "prev_hedge"], dim=-1)), D)
            finally:
                p.cost = old_cost
        from pfhedge.features import Barrier
        for up in (False, True):
            f = Barrier(1.0, up=up).of(d)
            for t in (None, 0, 1, 2):
                query("features.Barrier", f"Barrier(up={up}).get({t})", lambda f=f, t=t: f.get(t), D)
        if cfg["derivative"] in OPTION_KINDS:
            base = ["moneyness", "time_to_maturity"]
        else:
            base = ["underlier_spot", "zeros"]
        # the no-hedge benchmark: Naked() returns zeros, in the dtype of its input
        from pfhedge.nn import Naked
        hn = Hedger(Naked(), base)
        query("Hedger.compute_hedge", "compute_hedge[Naked]", lambda: hn.compute_hedge(d), D)
        query("Hedger.compute_pl", "compute_pl[Naked]", lambda: hn.compute_pl(d), D)
        variants = [("linear", base, len(base)),
                    # stepwise hedger fed with a down-barrier indicator
                    ("barrier_prev", base + [Barrier(1.0, up=False), "prev_hedge"], len(base) + 2)]
        if level == "full":
            variants.append(("linear_prev", base + ["prev_hedge"], len(base) + 1))
        # first everything that reads the present series, then the calls that simulate again
        for want, resim in ((D, False), (S, True)):
            for vname, inputs, n_in in variants:
                try:
                    model = torch.nn.Linear(n_in, 1)
                    hedger = Hedger(model, inputs).to(want)
                except Exception as e:  # noqa: BLE001
                    raise HarnessError(f"cannot build hedger: {e!r}")
                if not resim:
                    query("Hedger.compute_hedge", f"compute_hedge[{vname}]", lambda: hedger.compute_hedge(d), want)
                    query("Hedger.compute_portfolio", f"compute_portfolio[{vname}]",
                          lambda: hedger.compute_portfolio(d), want)
                    query("Hedger.compute_pl", f"compute_pl[{vname}]", lambda: hedger.compute_pl(d), want)
                else:
                    # these simulate again: the series (and so the result) are in the dtype simulations
                    # are produced in; afterwards the buffers must be in that dtype
                    query("Hedger.compute_loss", f"compute_loss[{vname}]",
                          lambda: hedger.compute_loss(d, n_paths=3), want)
                    query("Hedger.price", f"price[{vname}]", lambda: hedger.price(d, n_paths=3), want)
                    if vname == "linear":       # other criteria (root searches inside), both global defaults
                        from pfhedge.nn import EntropicLoss, ExpectedShortfall, QuadraticCVaR
                        for cname, crit in (("QuadraticCVaR", QuadraticCVaR(2.0)), ("ExpectedShortfall",
                                            ExpectedShortfall(0.5)), ("EntropicLoss", EntropicLoss())):
                            if cname == "QuadraticCVaR" and want in HALF:
                                # not issued: on /repo the bisection of quadratic_cvar cannot reach its precision
                                # (1e-6 x scale) in half precision and runs to max_iter = 100000 before raising
                                # RuntimeError (seconds per call) - counted as unsupported, see _root_search_gives_up
                                ctx.add("unsupported_half_precision", 2)
                                ctx.add("half_precision_root_search_not_issued", 2)
                                continue
                            hc = Hedger(torch.nn.Linear(n_in, 1), inputs, criterion=crit).to(want)
                            query("Hedger.compute_loss", f"compute_loss[{cname}]",
                                  lambda hc=hc: hc.compute_loss(d, n_paths=3), want)
                            query("Hedger.price", f"price[{cname}]", lambda hc=hc: hc.price(d, n_paths=3), want)
                    if vname == "linear":       # ensemble means over several simulations
                        query("Hedger.compute_loss", "compute_loss[n_times=2]",
                              lambda: hedger.compute_loss(d, n_paths=3, n_times=2), want)
                        query("Hedger.price", "price[n_times=2]",
                              lambda: hedger.price(d, n_paths=3, n_times=2), want)
                    got = {nm: b.dtype for nm, b in p.named_buffers() if nm in sim_buffers(cfg["primary"])}
                    if any(v != want for v in got.values()):
                        ctx.violation(cfg["primary"] + ".simulate", f"resimulated_dtype:{state_cls}",
                                      f"after Hedger.price the series are {got}, simulations are to be produced "
                                      f"in {want}; history {history}", observed=repr(got), expected=str(want),
                                      block=block, family="dtype_history")
    return n


# ---------------------------------------------------------------------------------
# families
# ---------------------------------------------------------------------------------
CTORS = [["ctor", None, None], ["ctor", "float64", None], ["ctor", "float16", None], ["ctor", "float32", "cpu"],
         ["ctor", "bfloat16", None]]


@family
def dtype_bfs(ctx, block):
    cfg = {"primary": block["primary"], "derivative": block["derivative"], "default0": block["default0"],
           "reads": block.get("queries", "full"), "persistent_hedger": block.get("persistent_hedger", True),
           "engine": block.get("engine", False)}
    ops = operations_two(block["ops"]) if block["ops"].startswith("two") else operations(block["ops"])
    if block.get("extra_op") and block["extra_op"] not in ops:
        ops = ops + [block["extra_op"]]
    dead = set()
    queried = set()
    n_queries = [0]
    if len(ctx.samples) < 2:
        h = [block["ctors"][0], ["simulate"], ["to", "float64"], ["set_default", "float64"], ["d.alias", "float"]]
        ctx.sample({"family": "dtype_bfs", "what": "one history written out: automaton state after each prefix",
                    "primary": cfg["primary"], "derivative": cfg["derivative"], "history": h,
                    "automaton": [repr(model_state(cfg, h[:i + 1]).key()) for i in range(len(h))],
                    "observed_at_end": repr(World(cfg, h).observe())})

    def build(h):
        return World(cfg, h, reads=True)   # lazy: only worlds that are observed are constructed

    def canon(w):
        if _hkey(w.history) in dead:
            return ("dead", _hkey(w.history)[-1])
        return w.observe()

    def enabled(before, op):
        if _hkey(before.history) in dead:
            return False
        if op[0] in ("q.share", "register_alias"):      # need a simulated spot on the first instrument
            return any(n == "spot" for n, _ in before_state(cfg, before.history).buffers)
        if op[0] == "register_spot_int":    # only for an instrument that declares a dtype (the series is then cast)
            return before_state(cfg, before.history).declared is not None
        return True

    def on_transition(hist, op, before, after):
        check_transition(ctx, cfg, hist, op, after, dead)
        ctx.tick(1, nontrivial=1 if before_state(cfg, hist).key() != before_state(cfg, hist + [op]).key() else 0)

    def on_state(h, w):
        if _hkey(h) in dead:
            return
        key = w.observe()
        sig = key if block.get("queries_per") == "state" else (key[0], key[2], key[3])
        if sig in queried:
            return
        queried.add(sig)
        q = check_state(ctx, cfg, h, World(cfg, h), block.get("queries", "core"))
        n_queries[0] += q
        ctx.tick(q, nontrivial=q if key[0] != key[3] else 0)

    res = explore.bfs([[c] for c in block["ctors"]], ops, build, canon, on_transition=on_transition,
                      enabled=enabled, max_depth=block.get("max_depth"), on_state=on_state)
    if block.get("max_depth") is None and not res.fixpoint:
        ctx.cap("dtype bfs did not reach a fixpoint")
    ctx.add("states", res.states)
    ctx.add("transitions", res.transitions)
    ctx.add("traces_validated_against_impl", res.transitions)
    ctx.add("state_queries", n_queries[0])
    if block.get("max_depth") is None:
        ctx.add("bfs_fixpoints", 1)
    ctx.info.setdefault("max_depth", 0)
    ctx.info["max_depth"] = max(ctx.info["max_depth"], res.max_depth)
    if len(ctx.samples) < ctx.sample_cap:
        deepest = max(res.seen.items(), key=lambda kv: len(kv[1]))
        ctx.sample({"family": "dtype_bfs", "primary": cfg["primary"], "derivative": cfg["derivative"],
                    "states": res.states, "transitions": res.transitions, "max_depth": res.max_depth,
                    "deepest_state": repr(deepest[0]), "reached_by": deepest[1]})


@family
def dtype_history(ctx, block):
    """One explicit history: every transition and the final state's queries."""
    cfg = {"primary": block["primary"], "derivative": block["derivative"], "default0": block["default0"],
           "reads": "full", "engine": block.get("engine", False)}
    h = block["history"]
    dead = set()
    for i in range(1, len(h)):
        ok = check_transition(ctx, cfg, h[:i], h[i], World(cfg, h[:i + 1], reads=True), dead)
        ctx.tick(1, nontrivial=1)
        if not ok:
            return
    # end-to-end: the state reached equals the automaton folded over the whole history
    obs, exp = World(cfg, h).observe()[:4], model_state(cfg, h).key()
    if obs != exp:
        ctx.violation(cfg["primary"] + ".history", "end_state_differs_from_automaton",
                      f"after {h} the instrument is {obs}, the automaton gives {exp}", observed=repr(obs),
                      expected=repr(exp), block=block, family="dtype_history")
    q = check_state(ctx, cfg, h, World(cfg, h), block.get("queries", "full"))
    ctx.tick(q)
    ctx.add("traces_validated_against_impl", 1)


@family
def ctor_rejects(ctx, block):
    """Constructors: 'A instrument of specific dtype/device can be constructed by passing a torch.dtype' and
    'non-floating dtypes are rejected': Class(dtype=<non-floating>) raises TypeError; floating dtypes are declared."""
    import pfhedge.instruments as I
    prim = block["primary"]
    for name in block["dtypes"]:
        kw = dict(PRIMARY_KW.get(prim, {}))
        ctx.tick(1, nontrivial=1)
        mini = {"primary": prim, "dtypes": [name]}
        try:
            inst = getattr(I, prim)(dtype=ALL_DT[name], **kw)
        except TypeError:
            if name in DM.NONFLOAT:
                ctx.add("rejected_casts_checked", 1)
                continue
            raise
        except HarnessError:
            raise
        except Exception as e:  # noqa: BLE001
            ctx.violation(prim + ".__init__", f"ctor_wrong_exception:{type(e).__name__}:{name}",
                          f"{prim}(dtype={name}) raised {type(e).__name__}: {str(e)[:120]}",
                          observed=type(e).__name__, expected="TypeError" if name in DM.NONFLOAT else "instrument",
                          block=mini)
            continue
        if name in DM.NONFLOAT:
            ctx.violation(prim + ".__init__", f"ctor_nonfloat_accepted:{name}",
                          f"{prim}(dtype=torch.{name}) was constructed (declares {inst.dtype}); non-floating dtypes "
                          f"are to be rejected with TypeError", observed=str(inst.dtype), expected="TypeError",
                          block=mini)
        elif inst.dtype != ALL_DT[name]:
            ctx.violation(prim + ".__init__", f"ctor_declares_other_dtype:{name}",
                          f"{prim}(dtype=torch.{name}) declares {inst.dtype}", observed=str(inst.dtype),
                          expected=name, block=mini)


# ---------------------------------------------------------------------------------
# functional forms called with python numbers; random engines
# ---------------------------------------------------------------------------------
# these three do not accept a python-number volatility on /repo (AttributeError: 'float' object has no attribute
# 'square'): the argument style is outside their domain, so it is not part of the queries
NUMBER_VOLATILITY_REJECTED = ("bs_lookback_theta", "bs_european_binary_theta", "bs_american_binary_theta")
BS_MODULES = ("BSEuropeanOption", "BSLookbackOption", "BSAmericanBinaryOption", "BSEuropeanBinaryOption")
GREEKS = ("price", "delta", "gamma", "vega", "theta")


def _bs_args(params, X, style):
    """(tensor, number, number) = 'tff' and (tensor, tensor, number) = 'ttf'; a running maximum is a tensor."""
    kw = {}
    for p in params:
        if p == "log_moneyness":
            kw[p] = torch.tensor([-0.1, 0.0, 0.1], dtype=X)
        elif p == "max_log_moneyness":
            kw[p] = torch.tensor([0.0, 0.05, 0.2], dtype=X)
        elif p == "time_to_maturity":
            kw[p] = torch.tensor([0.1, 0.2, 0.3], dtype=X) if style == "ttf" else 0.1
        elif p == "volatility":
            kw[p] = 0.2
        elif p == "strike":
            kw[p] = 1.0
    return kw


@family
def functional_dtypes(ctx, block):
    """Black-Scholes functional forms and module methods fed with a tensor of dtype X and python numbers, and the
    random engines asked for dtype X (or None): the result is in X (None: the global default)."""
    import inspect
    import pfhedge.nn as N
    import pfhedge.nn.functional as F
    import pfhedge.stochastic as S
    from pfhedge.stochastic.engine import RandnSobolBoxMuller
    prev = torch.get_default_dtype()
    default = DTYPES[block["default"]]
    try:
        torch.set_default_dtype(default)
        calls = []
        for name in sorted(n for n in dir(F) if n.startswith("bs_")):
            if block.get("only") and name not in block["only"]:
                continue
            fn = getattr(F, name)
            params = list(inspect.signature(fn).parameters)
            for style in ("tff", "ttf"):
                if name in NUMBER_VOLATILITY_REJECTED:
                    continue
                calls.append((name, name + "[" + style + "]", fn, params, style))
        for mod in BS_MODULES:
            for greek in GREEKS:
                name = f"{mod}.{greek}"
                if block.get("only") and name not in block["only"]:
                    continue
                m = getattr(N, mod)()
                fn = getattr(m, greek)
                params = list(inspect.signature(fn).parameters)
                for style in ("tff", "ttf"):
                    calls.append((name, name + "[" + style + "]", fn, params, style))
        for xname in block["dtypes"]:
            X = DTYPES[xname]
            rel = "narrower_than_default" if torch.finfo(X).bits < torch.finfo(default).bits else (
                "wider_than_default" if torch.finfo(X).bits > torch.finfo(default).bits else "default")
            for site, label, fn, params, style in calls:
                ctx.tick(1, nontrivial=1 if X != default else 0)
                mini = {"default": block["default"], "dtypes": [xname], "only": [site]}
                try:
                    with torch.no_grad():
                        out = fn(**_bs_args(params, X, style))
                except HarnessError:
                    raise
                except Exception as e:  # noqa: BLE001
                    if is_backend_unsupported(e, X):
                        ctx.add("unsupported_half_precision", 1)
                        continue
                    if isinstance(e, AttributeError) and "'float' object has no attribute" in str(e):
                        # this form does not accept a python number there (calls a Tensor method on it): the
                        # argument style is outside its domain - counted, not judged (as NUMBER_VOLATILITY_REJECTED)
                        ctx.add("number_argument_not_accepted", 1)
                        continue
                    ctx.violation(site, f"raises:{type(e).__name__}:{style}:{xname}",
                                  f"{label} raised {type(e).__name__}: {str(e)[:160]} (tensor dtype {xname}, default "
                                  f"{block['default']})", observed=str(e)[:160], expected=xname, block=mini)
                    continue
                if out.dtype != X:
                    got = NAME_OF.get(out.dtype, str(out.dtype))
                    follows = "follows_default" if out.dtype == default else got
                    ctx.violation(site, f"number_argument_dtype:{follows}:tensor_{rel}",
                                  f"{label} with a {xname} tensor and python-number arguments returns {got} under the "
                                  f"global default {block['default']}", observed=got, expected=xname, block=mini)
                ctx.outcome((site, str(out.dtype)))
        # random engines
        engines = {"randn_antithetic": S.randn_antithetic,
                   "randn_sobol_boxmuller": lambda *a, **k: S.randn_sobol_boxmuller(*a, seed=7, **k),
                   "RandnSobolBoxMuller()": RandnSobolBoxMuller(),
                   "RandnSobolBoxMuller(scramble=True)": RandnSobolBoxMuller(scramble=True, seed=7)}
        for ename, eng in engines.items():
            if block.get("only") and ename not in block["only"]:
                continue
            for xname in [None] + list(block["dtypes"]):
                want = default if xname is None else DTYPES[xname]
                ctx.tick(1, nontrivial=1)
                torch.default_generator.manual_seed(5)
                try:
                    out = eng(3, 2, dtype=None if xname is None else DTYPES[xname])
                except HarnessError:
                    raise
                except Exception as e:  # noqa: BLE001
                    if is_backend_unsupported(e, want):
                        ctx.add("unsupported_half_precision", 1)
                        continue
                    ctx.violation(ename, f"raises:{type(e).__name__}:{xname}", f"{ename}(3, 2, dtype={xname}) raised "
                                  f"{type(e).__name__}: {str(e)[:160]}", observed=str(e)[:160], expected=str(want),
                                  block={"default": block["default"], "dtypes": block["dtypes"], "only": [ename]})
                    continue
                if out.dtype != want or tuple(out.shape) != (3, 2):
                    ctx.violation(ename, f"engine_dtype:requested_{xname}:got_{NAME_OF.get(out.dtype)}",
                                  f"{ename}(3, 2, dtype={xname}) returns {out.dtype} {tuple(out.shape)} under default "
                                  f"{block['default']}", observed=[str(out.dtype), list(out.shape)], expected=str(want),
                                  block={"default": block["default"], "dtypes": block["dtypes"], "only": [ename]})
    finally:
        torch.set_default_dtype(prev)


# ---------------------------------------------------------------------------------
# "subsequent simulations are PRODUCED in it": values, not labels
# ---------------------------------------------------------------------------------
# Histories that make an instrument declare dtype D (the last operation is always a simulation).
ROUTES = ("ctor", "to", "to_kw", "alias", "to_tensor", "to_instrument", "ctor_other_to", "sim_to", "d.to")
ALIAS_OF = {"float64": "double", "float32": "float", "float16": "half", "bfloat16": "bfloat16"}
GAUSS_SITES = ("randn", "randn_like", "rand", "rand_like", "mvn")    # draws requested with an explicit dtype
# initial states (python floats) that no narrower floating dtype represents (relative rounding error of the
# narrower dtype > 2**-27, asserted below) - 'default': the documented default initial state of the class
PRODUCED_INIT = {"geometric_brownian": [1.3], "cir": [0.09], "heston": [1.3, 0.09], "vasicek": [0.013],
                 "merton_jump": [1.3], "kou_jump": [1.3], "rough_bergomi": [1.3, 0.09], "local_volatility": [1.3]}


def _scripted(shape, dtype, req):
    """One fixed script for every draw: non-dyadic float64 values (the answer is cast to the dtype the code asks for)."""
    n = 1
    for k in shape:
        n *= k
    base = torch.arange(n, dtype=torch.float64).reshape(shape)
    site = req["site"]
    if site == "poisson":
        return base % 2
    if site in ("rand", "rand_like", "uniform"):
        return (0.137 + 0.31 * base) % 1.0
    if site == "exponential":
        return 0.013 + 0.0071 * base
    return ((0.7310585786300049 * (base + 1 + req["index"])) % 2.0) - 1.0


def _narrower(D):
    """Floating dtypes with a shorter significand than D (none for the two half precisions: nothing is produced
    in bfloat16 on behalf of float16)."""
    if D in HALF:
        return []
    return [n for n, t in DTYPES.items() if torch.finfo(t).eps > torch.finfo(D).eps]


@family
def produced_in(ctx, block):
    """For every way of declaring dtype D the following simulation is produced in D, not merely labelled D:
    with every random draw answered from one fixed script,
    (a) column 0 of the series that carry the initial state equals the D-rounding of the requested (or the
        documented default) initial state: |col0 - init| <= 4 eps(D) |init|.  Derivation: the python float is rounded
        once to D (<= eps/2 relative); the documented log-spot schemes return exp(log(x)), whose relative error is
        <= (|log x| + 1) ulp <= 2 eps for |log x| < 1; everything else copies the state.  A simulation produced in a
        narrower dtype N and widened afterwards carries N's rounding error (> 2**-27 relative for the alphabet, asserted),
    (b) for each narrower floating dtype N: not every simulated value (columns 1..) of a series is representable
        in N (a series computed in N and widened consists of N-representable values only),
    (c) every gaussian/uniform draw that takes an explicit dtype (engine calls: randn, randn_like, rand_like, mvn)
        is requested in D (covers D narrower than the global default, where rounding hides (a) and (b)).
    No bitwise agreement with any particular operation order is demanded."""
    import pfhedge.instruments as I
    from mc.core.rngscript import OwnedRNG
    prim = block["primary"]
    info = INSTRUMENTS[prim]
    prev = torch.get_default_dtype()
    try:
        for dname in block["declared"]:
            D = DTYPES[dname]
            for route in block["routes"]:
                for init_kind in block["inits"]:
                    torch.set_default_dtype(DTYPES[block["default"]])
                    mini = {"primary": prim, "default": block["default"], "declared": [dname], "routes": [route],
                            "inits": [init_kind]}
                    init = tuple(PRODUCED_INIT[info["gen"]]) if init_kind == "init" else None
                    expect0 = init if init is not None else tuple(info["init"]({}))
                    wider = D != DTYPES[block["default"]] and torch.finfo(D).eps < torch.finfo(DTYPES[block["default"]]).eps
                    ctx.tick(1, nontrivial=1 if D != DTYPES[block["default"]] else 0)
                    kw = dict(PRIMARY_KW.get(prim, {}))
                    other = torch.float32 if D == torch.float64 else torch.float64
                    dead = None
                    with OwnedRNG({s_: _scripted for s_ in OwnedRNG.SITES}) as rng:
                        cls = getattr(I, prim)
                        p = cls(dtype=D, **kw) if route == "ctor" else (
                            cls(dtype=other, **kw) if route == "ctor_other_to" else cls(**kw))
                        d = None
                        if route in ("to", "ctor_other_to"):
                            p.to(D)
                        elif route == "to_kw":
                            p.to(dtype=D)
                        elif route == "alias":
                            getattr(p, ALIAS_OF[dname])()
                        elif route == "to_tensor":
                            p.to(torch.zeros(1, dtype=D))
                        elif route == "to_instrument":
                            p.to(I.BrownianStock(dtype=D))
                        elif route == "sim_to":
                            p.simulate(n_paths=2, time_horizon=2 * DT_STEP)
                            p.to(D)
                        elif route == "d.to":
                            d = I.EuropeanOption(p, maturity=3 * DT_STEP)
                            d.to(D)
                        elif route != "ctor":
                            raise HarnessError(f"unknown route {route}")
                        declared_now = p.dtype
                        mark = len(rng.log)
                        try:
                            if declared_now != D:
                                pass          # judged below; nothing is simulated
                            elif d is not None:
                                d.simulate(n_paths=2, **({} if init is None else {"init_state": init}))
                            else:
                                p.simulate(n_paths=2, time_horizon=3 * DT_STEP,
                                           **({} if init is None else {"init_state": init}))
                        except HarnessError:
                            raise
                        except (NotImplementedError, RuntimeError) as e:
                            if not is_backend_unsupported(e, D):
                                raise
                            dead = e
                        draws = rng.log[mark:]
                    if declared_now != D:
                        # the cast itself is wrong (the automaton of dtype_bfs judges casts; reported here as well so
                        # that the case is not silently dropped)
                        ctx.violation(prim + ".to", f"route_declares_other_dtype:{route}:{dname}",
                                      f"{prim}: route {route} towards {dname} leaves the instrument declaring "
                                      f"{declared_now}", observed=str(declared_now), expected=dname, block=mini)
                        continue
                    if dead is not None:
                        ctx.add("produced_in_half_precision_dead_ends", 1)
                        continue
                    site = prim + ".simulate"
                    tag = f"{dname}_under_default_{block['default']}"
                    # (c) dtype of the draws
                    bad = sorted({(r["site"], NAME_OF.get(r["dtype"], str(r["dtype"]))) for r in draws
                                  if r["site"] in GAUSS_SITES and r["dtype"] != D})
                    ctx.add("produced_in_draws_checked", sum(1 for r in draws if r["site"] in GAUSS_SITES))
                    if bad:
                        ctx.violation(site, f"draws_not_in_declared_dtype:{bad[0][0]}_{bad[0][1]}:{tag}",
                                      f"{prim} declares {dname} (route {route}, global default {block['default']}) but "
                                      f"simulate() asks its random engine for {bad}", observed=[list(b) for b in bad],
                                      expected=dname, block=mini)
                    bufs = dict(p.named_buffers())
                    missing = [n_ for n_ in info["buffers"] if n_ not in bufs or bufs[n_].dim() != 2]
                    if missing:
                        ctx.violation(site, f"series_missing_after_simulate:{missing[0]}:{tag}",
                                      f"{prim} (route {route}): no 2-d buffer {missing} after simulate()",
                                      observed=sorted(bufs), expected=list(info["buffers"]), block=mini)
                        continue
                    # (a) column 0
                    for name, x0 in zip(info["buffers"], expect0):
                        col0 = bufs[name][:, 0].double()
                        want = float(torch.tensor(x0, dtype=D).double())
                        tol = 4 * torch.finfo(D).eps * abs(x0)
                        err = float((col0 - want).abs().max())
                        for N in _narrower(D):
                            lost = abs(float(torch.tensor(x0, dtype=DTYPES[N]).double()) - x0)
                            if init is not None and lost <= 2.0 ** -27 * abs(x0):
                                raise HarnessError(f"initial state {x0} is too close to a {N} number")
                        ctx.add("produced_in_col0_checked", 1)
                        if not err <= tol:
                            as_n = [N for N in _narrower(D)
                                    if float((col0 - float(torch.tensor(x0, dtype=DTYPES[N]).double())).abs().max()) == 0.0]
                            what = f"rounded_to_{as_n[0]}" if as_n else "differs"
                            ctx.violation(site, f"initial_state_{what}:{name}:{init_kind}:{tag}",
                                          f"{prim} declares {dname} (route {route}, default {block['default']}): column 0 "
                                          f"of {name} is {col0.tolist()} for initial state {x0!r} "
                                          f"({'requested' if init is not None else 'documented default'}); the {dname} "
                                          f"rounding is {want!r}, |diff| {err:.3e} > {tol:.3e}",
                                          observed=col0.tolist(), expected=want, block=mini)
                    # (b) values representable in a narrower dtype
                    for name in info["buffers"]:
                        x = bufs[name][:, 1:]
                        for N in _narrower(D):
                            if N in ("float16", "bfloat16") and "float32" in _narrower(D):
                                continue      # representable in a half precision implies representable in float32
                            ctx.add("produced_in_series_checked", 1)
                            if x.numel() and bool((x.to(DTYPES[N]).to(D) == x).all()):
                                ctx.violation(site, f"values_all_representable_in_{N}:{name}:{tag}",
                                              f"{prim} declares {dname} (route {route}, default {block['default']}): all "
                                              f"{x.numel()} simulated values of {name} are exactly representable in {N} "
                                              f"- the series was produced in {N} and widened",
                                              observed=x.double().flatten().tolist()[:6], expected=f"computed in {dname}",
                                              block=mini)
                    ctx.outcome(("produced_in", dname, block["default"], wider))
    finally:
        torch.set_default_dtype(prev)


@family
def batch(ctx, block):
    for b in block["blocks"]:
        prev = (ctx._family, ctx._block)
        ctx._family, ctx._block = block["family"], b
        try:
            FAMILIES[block["family"]](ctx, b)
        finally:
            ctx._family, ctx._block = prev


# ---------------------------------------------------------------------------------
def run(ctx):
    ctx.rule("per (primary class, derivative class, initial global default): bfs over histories of the operation "
             "alphabet from every constructor variant, de-duplicated by the observed abstract state (declared dtype, "
             "declared device, buffer names+dtypes, global default), to a fixpoint; one evaluation = one transition "
             "checked against the automaton or one dtype query in a state; non-trivial = transitions that change "
             "the abstract state / queries in states whose declared dtype differs from the global default")
    ctx.alphabet("operations (quick)", [_opname(o) for o in operations("core")])
    ctx.alphabet("operations (thorough)", [_opname(o) for o in operations("full")])
    ctx.alphabet("operations (two-instrument worlds, quick)", [_opname(o) for o in operations_two("two")])
    ctx.alphabet("constructors", CTORS)
    ctx.alphabet("derivative classes", list(DERIVATIVES))
    ctx.assume("values do not influence dtype behaviour, so states with equal (declared dtype, declared device, "
               "buffer names/dtypes, global default) have the same futures; device alphabet is {None, cpu}")
    ctx.assume("half precision: only torch's '\"kernel\" not implemented for Half/BFloat16' errors are exempted "
               "(simulate: the transition is a counted dead end; queries: counted unsupported)")
    ctx.assume("user code (pricer of the listed option = documented BlackScholes pricer, hedger model = nn.Linear "
               "cast to the instrument's dtype) stands for 'a hedger cast to the same dtype'")
    primaries = list(INSTRUMENTS)
    for prim in primaries:
        ctx.run("ctor_rejects", {"primary": prim, "dtypes": list(DM.FLOATS) + list(DM.NONFLOAT)})
    for default in ("float32", "float64"):
        ctx.run("functional_dtypes", {"default": default, "dtypes": list(DM.FLOATS)})
    # simulations are produced in the declared dtype (values and draws, not labels): every primary class, both
    # global defaults, every floating dtype, every way of declaring it, requested and default initial state
    ctx.alphabet("produced_in routes", list(ROUTES))
    for prim in primaries:
        for default in ("float32", "float64"):
            ctx.run("produced_in", {"primary": prim, "default": default, "declared": list(DM.FLOATS),
                                    "routes": list(ROUTES), "inits": ["init", "default"]})
    blocks = []
    if ctx.quick:
        # every primary class to a fixpoint with one derivative class each (all six classes covered),
        # core operation alphabet, queries once per (declared, buffers, default)
        core = operations("core")
        extra = ctx.extra_symbol("operation", [o for o in operations("full") if o not in core])
        ctx.alphabet("seed-dependent extra operation", _opname(extra))
        for i, prim in enumerate(primaries):
            blocks.append({"primary": prim, "derivative": DERIVATIVES[i % len(DERIVATIVES)], "default0": "float32",
                           "ctors": CTORS[:3], "ops": "core", "extra_op": extra, "queries": "core",
                           "queries_per": "signature",
                           # the hedger code does not depend on the primary class: the persistent hedger rides
                           # along for two classes in the quick tier (thorough: all)
                           "persistent_hedger": i < 2,
                           # DESIGN 4/C17 B: fixpoint for 3 classes, depth 3 for the rest (thorough: fixpoint for all)
                           "max_depth": None if i < 3 else 4})   # 4 = constructor + 3 operations
        # two-instrument worlds (a second instrument shares a buffer of the first): every primary class
        for i, prim in enumerate(primaries):
            blocks.append({"primary": prim, "derivative": DERIVATIVES[(i + 3) % len(DERIVATIVES)],
                           "default0": "float32", "ctors": CTORS[:2], "ops": "two", "queries": "core",
                           "queries_per": "signature", "persistent_hedger": False})
        for prim, der in (("BrownianStock", "european"), ("HestonStock", "variance_swap")):
            blocks.append({"primary": prim, "derivative": der, "default0": "float32", "ctors": CTORS[:2],
                           "ops": "two_int", "queries": "core", "queries_per": "signature",
                           "persistent_hedger": False})
        # Merton / Kou driven by the quasi-random engine RandnSobolBoxMuller(), every constructor variant
        # (incl. undeclared), both initial global defaults
        for prim, der in (("MertonJumpStock", "european"), ("KouJumpStock", "lookback_put")):
            for default0 in ("float32", "float64"):
                blocks.append({"primary": prim, "derivative": der, "default0": default0, "ctors": CTORS,
                               "ops": "two", "queries": "core", "queries_per": "signature",
                               "persistent_hedger": False, "engine": True})
        for b in blocks:
            ctx.run("dtype_bfs", b)
    else:
        nonput = [k for k in DERIVATIVES if k not in PUTS]
        for i, prim in enumerate(primaries):
            # every primary class with three derivative classes (each derivative class with four primaries; the
            # payoff / feature code does not depend on the primary class, the simulation code not on the derivative),
            # the put variants with two primaries, european also from the float64 global default
            kinds = [nonput[(i + j) % len(nonput)] for j in (0, 2, 4)]
            if "european" not in kinds:
                kinds.append("european@float64only")
            if prim in ("BrownianStock", "HestonStock"):
                kinds += list(PUTS)
            for der in kinds:
                for default0 in ("float32", "float64"):
                    if der.endswith("@float64only"):
                        if default0 == "float32":
                            continue
                    elif default0 == "float64" and der != "european":
                        continue
                    der_ = der.split("@")[0]
                    der = der_
                    blocks.append({"primary": prim, "derivative": der, "default0": default0, "ctors": CTORS,
                                   "ops": "full", "queries": "full", "queries_per": "state"})
        for i, prim in enumerate(primaries):
            blocks.append({"primary": prim, "derivative": DERIVATIVES[(i + 3) % len(DERIVATIVES)],
                           "default0": "float32", "ctors": CTORS, "ops": "two_full", "queries": "full",
                           "queries_per": "state"})
        for i, prim in enumerate(primaries):
            blocks.append({"primary": prim, "derivative": DERIVATIVES[i % len(DERIVATIVES)], "default0": "float32",
                           "ctors": CTORS[:3], "ops": "two_int", "queries": "core", "queries_per": "signature",
                           "persistent_hedger": False})
        for prim, der in (("MertonJumpStock", "european"), ("KouJumpStock", "lookback_put")):
            for default0 in ("float32", "float64"):
                blocks.append({"primary": prim, "derivative": der, "default0": default0, "ctors": CTORS,
                               "ops": "two_full", "queries": "full", "queries_per": "state", "engine": True})
        ctx.run_parallel("dtype_bfs", blocks, workers=min(8, int(os.environ.get("VERIF_WORKERS", "8"))))

#!/bin/sh
# Offline setup: nothing to build (pure Python).  Verifies the interpreter, the
# imports the checks need, evidence-schema tooling and runs the explorer self-tests.
cd "$(dirname "$0")" || exit 2
set -e
/venv/bin/python - <<'PY'
import sys
sys.path.insert(0, "/repo")
import torch, mpmath, sympy, numpy
import pfhedge
print("imports ok: torch", torch.__version__, "pfhedge", pfhedge.__file__)
PY
/venv/bin/python -m compileall -q mc tools >/dev/null
python3-vt -c "import jsonschema" && echo "jsonschema ok (python3-vt)"
if [ -f mc/selftest/run.py ]; then PYTHONHASHSEED=0 /venv/bin/python -m mc.selftest.run; fi
echo "setup ok"

#!/usr/bin/env python3
"""Print python sources with docstrings stripped (reading aid)."""
import ast, sys
for fn in sys.argv[1:]:
    src = open(fn).read()
    tree = ast.parse(src)
    for node in ast.walk(tree):
        if isinstance(node, (ast.FunctionDef, ast.ClassDef, ast.Module)):
            b = node.body
            if b and isinstance(b[0], ast.Expr) and isinstance(getattr(b[0], 'value', None), ast.Constant) and isinstance(b[0].value.value, str):
                if len(b) > 1:
                    node.body = b[1:]
                else:
                    b[0].value.value = 'doc'
    print('#' * 20, fn)
    print(ast.unparse(tree))

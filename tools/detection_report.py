#!/usr/bin/env python3
"""Markdown summary of the seeded-change campaign from /verif/seeded/*/{meta,result}.json (for DESIGN.md 8.1)."""
import json, os, collections, re
V = os.path.dirname(os.path.dirname(os.path.abspath(__file__)))
S = os.path.join(V, "seeded")
rows = collections.defaultdict(list)
for d in sorted(os.listdir(S), key=lambda x: (x.split("-")[0], int(x.split("-")[1]))):
    mp = os.path.join(S, d, "meta.json")
    if not os.path.exists(mp):
        continue
    m = json.load(open(mp))
    rp = os.path.join(S, d, "result.json")
    r = json.load(open(rp)) if os.path.exists(rp) else {}
    title = ""
    np_ = os.path.join(S, d, "notes.md")
    if os.path.exists(np_):
        title = re.sub(r"^#\s*(Change\s*\d+\s*[-:]*\s*)?", "", open(np_).readline().strip())
    rows[m["breaks_property"]].append((d, bool(r.get("detected_by_target_check")), r.get("detected_by", []), bool(m.get("superseded")), title, bool(m.get("outside_claim"))))
tot = det = 0
print("| property | seeded changes | detected by its check | not detected | also detected by |")
print("|---|---|---|---|---|")
for p in sorted(rows):
    live = [x for x in rows[p] if not x[3]]
    d = [x for x in live if x[1]]
    nd = [x[0] + (' (by design)' if x[5] else '') for x in live if not x[1]]
    sup = [x[0] for x in rows[p] if x[3]]
    cross = sorted({c for x in live for c in x[2] if c != p})
    tot += len(live); det += len(d)
    print(f"| {p} | {len(live)}{' (+%d superseded: %s)' % (len(sup), ', '.join(sup)) if sup else ''} | {len(d)} | {', '.join(nd) or '-'} | {', '.join(cross) or '-'} |")
print(f"\n**{det} / {tot}** seeded changes are detected by the check of the property they were written against.")

#!/usr/bin/env python3
"""Apply one patch to a scratch copy of /repo and run checks (and optionally the
repository's own suite) against it.  Nothing is written to /repo or to
/verif/evidence; the scratch copy lives under /var/tmp and is removed afterwards.

usage: tools/mutant.py <patch.diff> --props C01,C05 [--suite] [--tier quick] [--seeds 0,1] [--keep]
prints one JSON line with the outcome.
"""
import argparse, json, os, re, shutil, subprocess, sys, tempfile, time

VERIF = os.path.dirname(os.path.dirname(os.path.abspath(__file__)))


def main():
    ap = argparse.ArgumentParser()
    ap.add_argument("patch")
    ap.add_argument("--props", default="")
    ap.add_argument("--suite", action="store_true")
    ap.add_argument("--tier", default="quick")
    ap.add_argument("--seeds", default="0")
    ap.add_argument("--keep", action="store_true")
    ap.add_argument("--repo", default="/repo")
    a = ap.parse_args()
    scratch = tempfile.mkdtemp(prefix="pfmut_", dir="/var/tmp")
    res = {"patch": os.path.basename(a.patch), "suite": None, "checks": {}}
    try:
        subprocess.run(["rsync", "-a", "--exclude", ".git", "--exclude", "__pycache__", "--exclude", "docs",
                        a.repo + "/", scratch + "/"], check=True)
        r = subprocess.run(["patch", "-p1", "--no-backup-if-mismatch", "-i", os.path.abspath(a.patch)],
                           cwd=scratch, capture_output=True, text=True)
        if r.returncode != 0:
            res["error"] = "patch failed: " + r.stdout + r.stderr
            print(json.dumps(res)); return 2
        env = dict(os.environ, PFHEDGE_VERIF_REPO=scratch, VERIF_EVIDENCE_DIR=os.path.join(scratch, "_evidence"),
                   VERIF_REPLAY_DIR=os.path.join(scratch, "_replays"))
        if a.suite:
            t0 = time.time()
            r = subprocess.run(["/venv/bin/python", "-m", "pytest", "-q", "-x", "-p", "no:cacheprovider",
                                "-m", "not gpu", "--deselect",
                                "tests/stochastic/test_rough_bergomi.py::test_generate_rough_bergomi",
                                "tests", "pfhedge", "--doctest-modules"] if False else
                               ["/venv/bin/python", "-m", "pytest", "-q", "-x", "-p", "no:cacheprovider",
                                "-m", "not gpu", "--deselect",
                                "tests/stochastic/test_rough_bergomi.py::test_generate_rough_bergomi"],
                               cwd=scratch, capture_output=True, text=True,
                               env=dict(os.environ, PYTHONWARNINGS="ignore", OMP_NUM_THREADS="1", MKL_NUM_THREADS="1"))
            tail = r.stdout.strip().splitlines()[-1:] if r.stdout.strip() else []
            res["suite"] = {"passed": r.returncode == 0, "tail": tail, "wall": round(time.time() - t0, 1)}
            if r.returncode != 0:
                fails = [l for l in r.stdout.splitlines() if l.startswith("FAILED") or l.startswith("ERROR")][:5]
                res["suite"]["fails"] = fails
        for prop in [p for p in a.props.split(",") if p]:
            for seed in a.seeds.split(","):
                t0 = time.time()
                try:
                    r = subprocess.run([os.path.join(VERIF, "check"), prop, "--tier", a.tier, "--seed", seed],
                                       capture_output=True, text=True, env=env, timeout=2400)
                except subprocess.TimeoutExpired:
                    r = subprocess.CompletedProcess([], -9, stdout="TIMEOUT: check did not finish in 2400 s\n", stderr="")
                viol = [l for l in r.stdout.splitlines() if l.startswith("VIOLATION")]
                detail = [l.strip() for l in r.stdout.splitlines() if l.startswith("  site=")]
                res["checks"][f"{prop}@{seed}"] = {"exit": r.returncode, "violations": len(viol),
                                                    "detail": detail[:4], "wall": round(time.time() - t0, 1)}
                if r.returncode == 2:
                    res["checks"][f"{prop}@{seed}"]["harness"] = r.stdout[-800:]
        print(json.dumps(res))
        killed = all(v["exit"] == 1 for v in res["checks"].values()) if res["checks"] else False
        return 0 if killed else 1
    finally:
        if not a.keep:
            shutil.rmtree(scratch, ignore_errors=True)


if __name__ == "__main__":
    sys.exit(main())

#!/bin/sh
# wave 9: /tmp/seed9_<P>/out/<k>  ->  seeded/<P>-<k+24>;   usage: tools/seeded_batch9.sh verify|run [props...]
cd "$(dirname "$0")/.." || exit 2
mode=$1; shift
props=${*:-"C01 C02 C03 C04 C05 C06 C07 C08 C09 C10 C11 C12 C13 C14 C15 C16 C17 C18 C19 C20"}
for p in $props; do for k in 1 2 3 4; do
  id=$p-$((k+24))
  if [ "$mode" = verify ]; then
    if [ -f /tmp/seed9_$p/out/$k/patch.diff ] && [ ! -d seeded/$id ]; then
      python3 tools/seeded.py verify /tmp/seed9_$p/out/$k $id --property $p
    fi
  else
    if [ -d seeded/$id ]; then python3 tools/seeded.py run $id; fi
  fi
done; done
echo BATCH-DONE

#!/usr/bin/env python3
"""Seeded property-breaking changes: verification and bookkeeping.

  tools/seeded.py verify <src_dir> <id> --property C03
      <src_dir> holds patch.diff, demo.py, notes.md from an independent sub-agent.
      In a scratch copy of /repo (under /var/tmp, removed afterwards) confirm:
        demo passes on the clean tree, patch applies, repository suite passes with the
        patch, demo fails with the patch.  If all hold, store /verif/seeded/<id>/
        {patch.diff, demo.py, notes.md, meta.json}.
  tools/seeded.py run <id> [--props C03,C02] [--tier quick] [--seeds 0]
      run checks against a scratch copy with the patch applied; store result in
      /verif/seeded/<id>/result.json   (exit 0 iff the target property's check reports a violation)
  tools/seeded.py table
      print the detection table of all seeded changes.
"""
import argparse, json, os, shutil, subprocess, sys, tempfile, time

VERIF = os.path.dirname(os.path.dirname(os.path.abspath(__file__)))
SEEDED = os.path.join(VERIF, "seeded")
PY = "/venv/bin/python"
SUITE = [PY, "-m", "pytest", "-q", "-x", "-p", "no:cacheprovider", "-m", "not gpu", "--deselect",
         "tests/stochastic/test_rough_bergomi.py::test_generate_rough_bergomi"]


def scratch_copy(repo="/repo"):
    d = tempfile.mkdtemp(prefix="pfseed_", dir="/var/tmp")
    subprocess.run(["rsync", "-a", "--exclude", ".git", "--exclude", "__pycache__", "--exclude", "docs",
                    "--exclude", "out", repo + "/", d + "/"], check=True)
    return d


def apply_patch(scratch, patch):
    r = subprocess.run(["patch", "-p1", "--no-backup-if-mismatch", "-i", os.path.abspath(patch)], cwd=scratch,
                       capture_output=True, text=True)
    return r.returncode == 0, r.stdout + r.stderr


def run_demo(scratch, demo):
    env = dict(os.environ, PYTHONWARNINGS="ignore", PYTHONPATH=scratch, PYTHONHASHSEED="0", OMP_NUM_THREADS="1", MKL_NUM_THREADS="1")
    r = subprocess.run([PY, os.path.abspath(demo)], cwd=scratch, capture_output=True, text=True, env=env, timeout=900)
    return r.returncode, (r.stdout + r.stderr)[-1500:]


def cmd_verify(a):
    src = a.src
    patch, demo = os.path.join(src, "patch.diff"), os.path.join(src, "demo.py")
    for f in (patch, demo):
        if not os.path.exists(f):
            print("missing", f); return 2
    out = {"id": a.id, "property": a.property, "verified_at": time.strftime("%Y-%m-%dT%H:%M:%S")}
    scratch = scratch_copy()
    try:
        # demo must import the scratch tree: copy it inside
        os.makedirs(os.path.join(scratch, "out", "k"), exist_ok=True)
        d2 = os.path.join(scratch, "out", "k", "demo.py")
        shutil.copy(demo, d2)
        rc0, o0 = run_demo(scratch, d2)
        out["demo_clean"] = {"exit": rc0, "tail": o0[-400:]}
        ok, msg = apply_patch(scratch, patch)
        out["patch_applies"] = ok
        if not ok:
            out["patch_msg"] = msg[-500:]
        else:
            r = subprocess.run(SUITE, cwd=scratch, capture_output=True, text=True,
                               env=dict(os.environ, PYTHONWARNINGS="ignore", OMP_NUM_THREADS="1", MKL_NUM_THREADS="1"))
            tail = r.stdout.strip().splitlines()[-1:] if r.stdout.strip() else []
            out["suite_with_patch"] = {"passed": r.returncode == 0, "tail": tail,
                                       "fails": [l for l in r.stdout.splitlines() if l.startswith("FAILED")][:5]}
            rc1, o1 = run_demo(scratch, d2)
            out["demo_patched"] = {"exit": rc1, "tail": o1[-600:]}
        good = (out.get("patch_applies") and out["demo_clean"]["exit"] == 0
                and out.get("suite_with_patch", {}).get("passed") and out.get("demo_patched", {}).get("exit", 0) != 0)
        out["accepted"] = bool(good)
        if good:
            dst = os.path.join(SEEDED, a.id)
            os.makedirs(dst, exist_ok=True)
            shutil.copy(patch, os.path.join(dst, "patch.diff"))
            shutil.copy(demo, os.path.join(dst, "demo.py"))
            if os.path.exists(os.path.join(src, "notes.md")):
                shutil.copy(os.path.join(src, "notes.md"), os.path.join(dst, "notes.md"))
            meta = {"id": a.id, "breaks_property": a.property, "source": "independent sub-agent given only the property text and a scratch worktree",
                    "needs_to_manifest": a.needs or "see notes.md",
                    "verification": {"what_was_run": [
                        "demo.py on a clean scratch copy of /repo (exit 0 required)",
                        "patch -p1 < patch.diff on the scratch copy",
                        " ".join(SUITE[1:]) + "  (must pass with the change)",
                        "demo.py on the patched copy (non-zero exit required)"],
                        "demo_clean_exit": out["demo_clean"]["exit"], "suite_with_patch": out["suite_with_patch"],
                        "demo_patched_exit": out["demo_patched"]["exit"], "demo_patched_tail": out["demo_patched"]["tail"][-300:],
                        "verified_at": out["verified_at"]}}
            json.dump(meta, open(os.path.join(dst, "meta.json"), "w"), indent=1)
        print(json.dumps(out))
        return 0 if good else 1
    finally:
        shutil.rmtree(scratch, ignore_errors=True)


def cmd_run(a):
    dst = os.path.join(SEEDED, a.id)
    meta = json.load(open(os.path.join(dst, "meta.json")))
    props = a.props.split(",") if a.props else [meta["breaks_property"]]
    scratch = scratch_copy()
    res = {"tier": a.tier, "checks": {}}
    try:
        ok, msg = apply_patch(scratch, os.path.join(dst, "patch.diff"))
        if not ok:
            print("patch failed", msg); return 2
        env = dict(os.environ, PFHEDGE_VERIF_REPO=scratch, VERIF_EVIDENCE_DIR=os.path.join(scratch, "_evidence"),
                   VERIF_REPLAY_DIR=os.path.join(scratch, "_replays"))
        for p in props:
            for seed in a.seeds.split(","):
                t0 = time.time()
                try:
                    r = subprocess.run([os.path.join(VERIF, "check"), p, "--tier", a.tier, "--seed", seed],
                                       capture_output=True, text=True, env=env, timeout=2400)
                except subprocess.TimeoutExpired:
                    r = subprocess.CompletedProcess([], -9, stdout="TIMEOUT: check did not finish in 2400 s\n", stderr="")
                detail = [l.strip() for l in r.stdout.splitlines() if l.startswith("  site=")][:3]
                res["checks"][f"{p}@{seed}"] = {"exit": r.returncode, "detail": detail, "wall": round(time.time() - t0, 1)}
                if r.returncode == 2:
                    res["checks"][f"{p}@{seed}"]["harness"] = r.stdout[-600:]
        # merge with earlier results
        path = os.path.join(dst, "result.json")
        old = json.load(open(path)) if os.path.exists(path) else {"checks": {}}
        old["checks"].update(res["checks"])
        old["tier"] = a.tier
        tgt = [v for k, v in old["checks"].items() if k.startswith(meta["breaks_property"] + "@")]
        old["detected_by_target_check"] = bool(tgt) and all(v["exit"] == 1 for v in tgt)
        old["detected_by"] = sorted({k.split("@")[0] for k, v in old["checks"].items() if v["exit"] == 1})
        json.dump(old, open(path, "w"), indent=1)
        print(json.dumps({"id": a.id, **res}))
        return 0 if old["detected_by_target_check"] else 1
    finally:
        shutil.rmtree(scratch, ignore_errors=True)


def cmd_table(a):
    rows = []
    for d in sorted(os.listdir(SEEDED)) if os.path.isdir(SEEDED) else []:
        mp = os.path.join(SEEDED, d, "meta.json")
        if not os.path.exists(mp):
            continue
        m = json.load(open(mp))
        rp = os.path.join(SEEDED, d, "result.json")
        r = json.load(open(rp)) if os.path.exists(rp) else {}
        if m.get("superseded"):
            print("| %s | %s | superseded (no longer breaks the property on the current tree) | |" % (d, m["breaks_property"]))
            continue
        rows.append((d, m["breaks_property"], r.get("detected_by_target_check"), ",".join(r.get("detected_by", []))))
    for row in rows:
        print("| %s | %s | %s | %s |" % row)
    n = sum(1 for r in rows if r[2])
    print(f"{n}/{len(rows)} detected by the target property's check")


def main():
    ap = argparse.ArgumentParser()
    sub = ap.add_subparsers(dest="cmd", required=True)
    v = sub.add_parser("verify"); v.add_argument("src"); v.add_argument("id"); v.add_argument("--property", required=True); v.add_argument("--needs", default="")
    r = sub.add_parser("run"); r.add_argument("id"); r.add_argument("--props", default=""); r.add_argument("--tier", default="quick"); r.add_argument("--seeds", default="0")
    sub.add_parser("table")
    a = ap.parse_args()
    return {"verify": cmd_verify, "run": cmd_run, "table": cmd_table}[a.cmd](a)


if __name__ == "__main__":
    sys.exit(main())

#!/usr/bin/env python3
"""Soundness against behaviour-preserving refactorings: each /verif/refactorings/<id>/patch.diff is applied
to a scratch copy of /repo, the repository suite must still pass, and ALL checks (quick) must stay silent.
usage: tools/refac_run.py ingest   (copy /tmp/refac_*/out/<k> into /verif/refactorings/<area>-<k>)
       tools/refac_run.py run [--jobs 5] [--only id,...] [--props C01,...]"""
import argparse, concurrent.futures as cf, json, os, shutil, subprocess, sys, tempfile, time
V = os.path.dirname(os.path.dirname(os.path.abspath(__file__)))
R = os.path.join(V, "refactorings")
ALL = [f"C{i:02d}" for i in range(1, 21)]

def ingest():
    os.makedirs(R, exist_ok=True)
    for area in ("risk", "bs", "sim", "hedger", "instr"):
        for k in range(1, 7):
            src = f"/tmp/refac_{area}/out/{k}"
            if os.path.exists(src + "/patch.diff"):
                dst = os.path.join(R, f"{area}-{k}")
                os.makedirs(dst, exist_ok=True)
                shutil.copy(src + "/patch.diff", dst)
                if os.path.exists(src + "/notes.md"):
                    shutil.copy(src + "/notes.md", dst)
    print(sorted(os.listdir(R)))

def one(a):
    rid, props = a
    d = os.path.join(R, rid)
    scratch = tempfile.mkdtemp(prefix="pfrefac_", dir="/var/tmp")
    res = {"id": rid, "checks": {}}
    try:
        subprocess.run(["rsync", "-a", "--exclude", ".git", "--exclude", "__pycache__", "--exclude", "docs", "/repo/", scratch + "/"], check=True)
        r = subprocess.run(["patch", "-p1", "--no-backup-if-mismatch", "-i", os.path.join(d, "patch.diff")], cwd=scratch, capture_output=True, text=True)
        res["patch_applies"] = r.returncode == 0
        if r.returncode != 0:
            res["patch_msg"] = (r.stdout + r.stderr)[-300:]
            return res
        env0 = dict(os.environ, OMP_NUM_THREADS="1", MKL_NUM_THREADS="1", PYTHONWARNINGS="ignore")
        r = subprocess.run(["/venv/bin/python", "-m", "pytest", "-q", "-x", "-p", "no:cacheprovider", "-m", "not gpu", "--deselect",
                            "tests/stochastic/test_rough_bergomi.py::test_generate_rough_bergomi"], cwd=scratch, capture_output=True, text=True, env=env0)
        res["suite_passed"] = r.returncode == 0
        env = dict(os.environ, PFHEDGE_VERIF_REPO=scratch, VERIF_EVIDENCE_DIR=os.path.join(scratch, "_ev"), VERIF_REPLAY_DIR=os.path.join(scratch, "_rp"), VERIF_WORKERS="2")
        for p in props:
            t0 = time.time()
            try:
                r = subprocess.run([os.path.join(V, "check"), p, "--tier", "quick"], capture_output=True, text=True, env=env, timeout=2400)
            except subprocess.TimeoutExpired:
                r = subprocess.CompletedProcess([], -9, stdout="TIMEOUT", stderr="")
            detail = [l.strip() for l in r.stdout.splitlines() if l.startswith(("  site=", "HARNESS"))][:3]
            res["checks"][p] = {"exit": r.returncode, "wall": round(time.time() - t0, 1), "detail": detail}
        res["alarms"] = sorted(p for p, v in res["checks"].items() if v["exit"] != 0)
        # a partial run (--props) updates the stored result instead of replacing it
        stored = dict(res)
        rp = os.path.join(d, "result.json")
        if os.path.exists(rp):
            try:
                old = json.load(open(rp))
                stored["checks"] = dict(old.get("checks", {}), **res["checks"])
            except Exception:
                pass
        stored["alarms"] = sorted(p for p, v in stored["checks"].items() if v["exit"] != 0)
        json.dump(stored, open(rp, "w"), indent=1)
        return res
    finally:
        shutil.rmtree(scratch, ignore_errors=True)

def main():
    ap = argparse.ArgumentParser(); ap.add_argument("cmd"); ap.add_argument("--jobs", type=int, default=5)
    ap.add_argument("--only", default=""); ap.add_argument("--props", default=",".join(ALL))
    a = ap.parse_args()
    if a.cmd == "ingest":
        return ingest()
    ids = sorted(d for d in os.listdir(R) if os.path.exists(os.path.join(R, d, "patch.diff")))
    if a.only:
        ids = [i for i in ids if i in a.only.split(",")]
    with cf.ThreadPoolExecutor(a.jobs) as ex:
        for res in ex.map(one, [(i, a.props.split(",")) for i in ids]):
            print(res["id"], "applies:", res.get("patch_applies"), "suite:", res.get("suite_passed"), "ALARMS:", res.get("alarms"), flush=True)
            for p in res.get("alarms", []):
                print("    ", p, res["checks"][p]["detail"][:2], flush=True)
if __name__ == "__main__":
    main()

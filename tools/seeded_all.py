#!/usr/bin/env python3
"""Re-run the target check of every seeded change (tools/seeded.py run <id>) in parallel.
usage: tools/seeded_all.py [--jobs 8] [--only C07,C09] [--missed]     (--missed: only those not detected at their last run)
"""
import argparse, concurrent.futures as cf, json, os, subprocess, sys, time

V = os.path.dirname(os.path.dirname(os.path.abspath(__file__)))


def one(i):
    t0 = time.time()
    r = subprocess.run([sys.executable, os.path.join(V, "tools", "seeded.py"), "run", i], capture_output=True, text=True,
                       env=dict(os.environ, OMP_NUM_THREADS="1", MKL_NUM_THREADS="1"))
    return i, r.returncode, round(time.time() - t0), (r.stdout + r.stderr)[-200:] if r.returncode == 2 else ""


def main():
    ap = argparse.ArgumentParser()
    ap.add_argument("--jobs", type=int, default=8)
    ap.add_argument("--only", default="")
    ap.add_argument("--missed", action="store_true")
    a = ap.parse_args()
    ids = []
    for d in sorted(os.listdir(os.path.join(V, "seeded"))):
        mp = os.path.join(V, "seeded", d, "meta.json")
        if not os.path.exists(mp):
            continue
        m = json.load(open(mp))
        if m.get("superseded") or m.get("out_of_scope"):
            continue
        if a.only and m["breaks_property"] not in a.only.split(","):
            continue
        rp = os.path.join(V, "seeded", d, "result.json")
        if a.missed and os.path.exists(rp) and json.load(open(rp)).get("detected_by_target_check"):
            continue
        ids.append(d)
    bad = []
    with cf.ThreadPoolExecutor(a.jobs) as ex:
        for i, rc, wall, msg in ex.map(one, ids):
            print(i, {0: "detected", 1: "MISSED", 2: "ERROR"}.get(rc, rc), f"{wall}s", msg.replace("\n", " "), flush=True)
            if rc != 0:
                bad.append(i)
    print("not detected:", bad)
    print("ALL-DONE")


if __name__ == "__main__":
    sys.exit(main())

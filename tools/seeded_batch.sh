#!/bin/sh
# usage: tools/seeded_batch.sh verify|run [props...]   (sequential; OMP threads pinned by the tools)
cd "$(dirname "$0")/.." || exit 2
mode=$1; shift
props=${*:-"C01 C02 C03 C04 C05 C06 C07 C08 C09 C10 C11 C12 C13 C14 C15 C16 C17 C18 C19 C20"}
for p in $props; do for k in 1 2 3; do
  if [ "$mode" = verify ]; then
    if [ -f /tmp/seed_$p/out/$k/patch.diff ] && [ ! -d seeded/$p-$k ]; then
      python3 tools/seeded.py verify /tmp/seed_$p/out/$k $p-$k --property $p
    fi
  else
    if [ -d seeded/$p-$k ] && [ -f mc/checks/$(echo $p | tr A-Z a-z).py ]; then
      python3 tools/seeded.py run $p-$k
    fi
  fi
done; done
echo BATCH-DONE

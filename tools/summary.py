#!/usr/bin/env python3
"""Print a markdown table of the current evidence files (one line per property)."""
import json, glob, os
V = os.path.dirname(os.path.dirname(os.path.abspath(__file__)))
print("| id | tier | evaluations | non-trivial | states | transitions | traces | outcomes | known | wall s |")
print("|---|---|---|---|---|---|---|---|---|---|")
for f in sorted(glob.glob(os.path.join(V, "evidence", "C*.json"))):
    e = json.load(open(f)); c = e["coverage"]
    print("| %s | %s | %s | %s | %s | %s | %s | %s | %s | %.0f |" % (
        e["property_id"], e["tier"], c.get("evaluations"), c.get("distinct_nontrivial"), c.get("states", "-"),
        c.get("transitions", "-"), c.get("traces_validated_against_impl", "-"), c.get("distinct_outcomes"),
        c.get("known_findings_reproduced"), e["wall_s"]))

#!/usr/bin/env python3
"""Run all claimed checks on /repo over several seeds (evidence goes to a scratch dir) and report non-zero exits.
usage: tools/soundness.py [--seeds 0,1,2,3,4,5,12345] [--jobs 8] [--tier quick] [--props C01,...]"""
import argparse, concurrent.futures as cf, os, subprocess, sys, tempfile, time
V = os.path.dirname(os.path.dirname(os.path.abspath(__file__)))
def one(a):
    p, seed, tier, ev = a
    t0 = time.time()
    env = dict(os.environ, VERIF_EVIDENCE_DIR=ev, VERIF_REPLAY_DIR=os.path.join(ev, "replays"), VERIF_WORKERS="2")
    r = subprocess.run([os.path.join(V, "check"), p, "--tier", tier, "--seed", str(seed)], capture_output=True, text=True, env=env)
    bad = [l for l in r.stdout.splitlines() if l.startswith(("VIOLATION", "HARNESS", "  site="))]
    return p, seed, r.returncode, round(time.time() - t0, 1), bad[:4]
def main():
    ap = argparse.ArgumentParser()
    ap.add_argument("--seeds", default="0,1,2,3,4,5,12345"); ap.add_argument("--jobs", type=int, default=8)
    ap.add_argument("--tier", default="quick"); ap.add_argument("--props", default=",".join(f"C{i:02d}" for i in range(1, 21)))
    a = ap.parse_args()
    ev = tempfile.mkdtemp(prefix="pfsound_", dir="/var/tmp")
    work = [(p, s, a.tier, ev) for s in a.seeds.split(",") for p in a.props.split(",")]
    nbad = 0
    with cf.ThreadPoolExecutor(a.jobs) as ex:
        for p, seed, rc, wall, bad in ex.map(one, work):
            if rc != 0:
                nbad += 1
                print("NONZERO", p, seed, rc, wall, bad, flush=True)
            else:
                print("ok", p, seed, wall, flush=True)
    print(f"runs={len(work)} nonzero={nbad}")
    subprocess.run(["rm", "-rf", ev])
    return 1 if nbad else 0
if __name__ == "__main__":
    sys.exit(main())

#!/usr/bin/env python3
"""usage: validate_evidence.py <schema.json> <evidence.json>  (run with python3-vt)"""
import json, sys
import jsonschema
schema = json.load(open(sys.argv[1]))
doc = json.load(open(sys.argv[2]))
try:
    jsonschema.Draft202012Validator(schema).validate(doc)
except jsonschema.ValidationError as e:
    print("INVALID:", e.message)
    sys.exit(1)
print("ok")

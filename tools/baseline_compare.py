#!/usr/bin/env python3
"""Compare a junit xml of the repository suite with /root/.vp/BASELINE.json stable_pass."""
import json, sys
import xml.etree.ElementTree as ET
base = json.load(open("/root/.vp/BASELINE.json"))
stable = set(base["stable_pass"])
root = ET.parse(sys.argv[1]).getroot()
passed = set()
for tc in root.iter("testcase"):
    name = f"{tc.get('classname')}::{tc.get('name')}"
    if not any(ch.tag in ("failure", "error", "skipped") for ch in tc):
        passed.add(name)
missing = sorted(stable - passed)
print(f"stable_pass={len(stable)} passed_now={len(passed)} missing={len(missing)}")
for m in missing[:40]:
    print("  MISSING", m)
sys.exit(1 if missing else 0)

#!/usr/bin/env python3
"""Run every seeded change against ALL checks (cross-detection matrix), in parallel.
usage: tools/seeded_matrix.py [--jobs 8] [--only C01-1,C02-3] [--props C01,C02,...]"""
import argparse, concurrent.futures as cf, json, os, subprocess, sys
V = os.path.dirname(os.path.dirname(os.path.abspath(__file__)))
ALL = ",".join(f"C{i:02d}" for i in range(1, 21))

def one(a):
    sid, props = a
    r = subprocess.run([sys.executable, os.path.join(V, "tools", "seeded.py"), "run", sid, "--props", props],
                       capture_output=True, text=True)
    return sid, r.returncode

def main():
    ap = argparse.ArgumentParser(); ap.add_argument("--jobs", type=int, default=8)
    ap.add_argument("--only", default=""); ap.add_argument("--props", default=ALL)
    a = ap.parse_args()
    ids = sorted(d for d in os.listdir(os.path.join(V, "seeded")) if os.path.exists(os.path.join(V, "seeded", d, "meta.json")))
    if a.only:
        ids = [i for i in ids if i in a.only.split(",")]
    with cf.ThreadPoolExecutor(a.jobs) as ex:
        for sid, rc in ex.map(one, [(i, a.props) for i in ids]):
            r = json.load(open(os.path.join(V, "seeded", sid, "result.json")))
            print(sid, "target:", r.get("detected_by_target_check"), "by:", ",".join(r.get("detected_by", [])), flush=True)
if __name__ == "__main__":
    main()

#!/usr/bin/env python3
"""Regenerate /verif/MANIFEST.json from the table below (run after adding a check).

A property is claimed iff it is in META with "claimed": True and mc/checks/<id>.py exists;
every other property of properties.jsonl is listed under not_applicable with its reason.
"""
import json
import os

VERIF = os.path.dirname(os.path.dirname(os.path.abspath(__file__)))

ENGINE = {"grid": "grid", "tree": "tree", "bfs": "bfs"}

META = {
    "C01": dict(claimed=True, engine="grid", design="4/C01",
                technique="bounded-exhaustive enumeration of all (spot, position, payoff) sequences over dyadic alphabets against an exact integer/rational reference model; all price paths through the real Hedger",
                text="Every assignment of spot/position symbols to every (instrument, step) cell for shapes up to (H,T)=(3,2),(2,3) (thorough: (3,3),(2,4),(1,8)), times cost vectors, first-cost flag, payoff, dtype and both entry points, is run through the real pl() and compared bitwise with an exact-arithmetic model of the wealth identity (price alphabets with positive symbols, with a negative symbol, and with a quote of exactly zero at the first, an inner and the last step; a non-finite result is a violation); Hedger.compute_pl/compute_portfolio are run on all |A|^T scripted price paths for six hedge lists (incl. listed derivatives), five models and six derivative types and compared with the rational-arithmetic identity. Complete for the stated alphabets, silent about values outside them (locality argument in DESIGN.md section 1).",
                note="Trusted: torch elementwise arithmetic is exact on the dyadic alphabets; the identity is linear/abs-valued per cell so index, sign and flag errors show on 2-3 symbol alphabets. Non-dyadic real values are not enumerated."),
}

NOT_YET = "check not built yet in this session (planned in DESIGN.md section 4); not claimed until it runs clean"


def main():
    props = [json.loads(l) for l in open(os.path.join(VERIF, "properties.jsonl"))]
    accepted = set(open(os.path.join(VERIF, "tools", "claimed.txt")).read().split())
    checks, na = [], []
    served = {"grid": [], "tree": [], "bfs": []}
    for p in props:
        pid = p["id"]
        m = META.get(pid)
        mp = os.path.join(VERIF, "mc", "checks", pid.lower() + ".meta.json")
        if os.path.exists(mp):
            m = json.load(open(mp))
        have = os.path.exists(os.path.join(VERIF, "mc", "checks", pid.lower() + ".py"))
        if m and m.get("claimed") and have and pid in accepted:
            for e in m["engine"].split("+"):
                if e in served:
                    served[e].append(pid)
            checks.append({
                "property_id": pid,
                "quick_cmd": f"./check {pid} --tier quick",
                "thorough_cmd": f"./check {pid} --tier thorough",
                "evidence_file": f"/verif/evidence/{pid}.json",
                "replay_cmd_template": f"./check {pid} --replay {{path}}",
                "engine": m["engine"],
                "level_claimed": {"category": "model_checking", "text": m["text"],
                                  "design_ref": "DESIGN.md section " + m["design"]},
                "level_note": m["note"],
                "technique": m["technique"],
            })
        else:
            na.append({"property_id": pid, "reason": (m or {}).get("reason", NOT_YET)})
    man = {
        "version": 1,
        "setup_cmd": "./setup.sh",
        "hooks": {
            "guard": "PFHEDGE_VERIF",
            "enable": "no source hooks are needed: checks import /repo's working tree directly (pure Python, editable install) and inject market data / RNG answers from the harness; PFHEDGE_VERIF=1 is exported by ./check but read by no pfhedge source line",
            "baseline_off_cmd": "cd /repo && /venv/bin/python -m pytest -ra -q -p no:cacheprovider --timeout=900 --continue-on-collection-errors",
            "source_commits": [],
            "add_only": True,
        },
        "engines": [
            {"name": "grid", "path": "mc/core/explore.py", "serves_properties": served["grid"],
             "kind_free_text": "bounded-exhaustive enumeration of finite input alphabets (full products, packed on tensor axes) against independent exact / high-precision reference models; relational oracles over all pairs"},
            {"name": "tree", "path": "mc/core/rngscript.py", "serves_properties": served["tree"],
             "kind_free_text": "environment-answer trees: every RNG draw is owned and answered from a finite alphabet (quadrature nodes, extreme atoms, all permutations); the complete answer tree / the complete price-path tree is explored in one real call; model + conformance"},
            {"name": "bfs", "path": "mc/core/explore.py", "serves_properties": served["bfs"],
             "kind_free_text": "explicit-state breadth-first search over operation histories on real objects, de-duplicated by a canonical abstract state, each transition checked against a reference automaton (to fixpoint where the abstract space is finite)"},
        ],
        "checks": checks,
        "not_applicable": na,
        "notes": "All checks: ./check <id> --tier quick|thorough [--seed N] [--replay file]; interpreter /venv/bin/python; VERIF_SEED/VERIF_TIER honoured. Known findings: /verif/known_findings.txt. Seeded property-breaking changes: /verif/seeded/. See DESIGN.md.",
    }
    with open(os.path.join(VERIF, "MANIFEST.json"), "w") as f:
        json.dump(man, f, indent=1)
        f.write("\n")
    print(f"claimed={len(checks)} not_applicable={len(na)}")


if __name__ == "__main__":
    main()
